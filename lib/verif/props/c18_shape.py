"""C18: read the SHAPE of the atomic primitives out of include/qthread/qthread.h as configured (DESIGN 4.5 / 6 C18).

The header is preprocessed with the repo's flags; from the selected #if branches we extract, for
qthread_fincr / qthread_dincr: the statements of the CAS-retry loop (load, add, primitive with its asm template and
operand binding, retry condition, returned variable); for qthread_incr32/64 and the macros qthread_incr,
qthread_cas, qthread_cas32, qthread_cas64, qthread_cas_ptr: the primitive they expand to and the argument order.
Result: coq/theories/Atomics/GenShape.v (written only when it changes).  Anything that cannot be parsed becomes
RUnknown / PrimUnknown, which `shape_is_expected` rejects (never a silent skip).
"""
import os
import re
from .. import core

PROBE = r"""
#include <qthread/qthread.h>
@@MUTEX
#ifdef QTHREAD_MUTEX_INCREMENT
yes
#else
no
#endif
@@MACRO incr
qthread_incr(ADDR, INCVAL)
@@MACRO cas
qthread_cas(ADDR, OLDV, NEWV)
@@MACRO cas32
qthread_cas32(ADDR, OLDV, NEWV)
@@MACRO cas64
qthread_cas64(ADDR, OLDV, NEWV)
@@MACRO cas_ptr
qthread_cas_ptr(ADDR, OLDV, NEWV)
@@END
"""

TOK = re.compile(r'\s*("(?:[^"\\]|\\.)*"|[A-Za-z_][A-Za-z_0-9]*|0[xX][0-9a-fA-F]+|\d+|!=|==|<=|>=|->|\+\+|--|&&|\|\||[^\sA-Za-z_0-9])')


def tokenize(s):
    out, pos = [], 0
    s = s.strip()
    while pos < len(s):
        m = TOK.match(s, pos)
        if not m:
            break
        out.append(m.group(1))
        pos = m.end()
    return out


def preprocess(repo=None):
    repo = repo or core.REPO
    flags = [f.replace(core.REPO, repo) for f in core.CPPFLAGS]
    rc, out, err = core.sh(["gcc", "-E", "-P", "-x", "c", "-std=gnu99"] + flags + ["-"], input=PROBE, timeout=60)
    if rc != 0:
        raise core.BuildError("qthread.h does not preprocess with the repo's flags:\n" + err[-2000:])
    return out


def func_body(text, name):
    """tokens of the body of `static inline T name(params) { ... }` and the parameter names"""
    m = re.search(r"\b%s\s*\(([^)]*)\)\s*\{" % re.escape(name), text)
    if not m:
        return None, []
    params = [p.strip().split()[-1].lstrip("*") for p in m.group(1).split(",")]
    i = m.end()
    depth, j = 1, i
    in_str = False
    while j < len(text) and depth:
        ch = text[j]
        if in_str:
            if ch == "\\":
                j += 1
            elif ch == '"':
                in_str = False
        elif ch == '"':
            in_str = True
        elif ch == "{":
            depth += 1
        elif ch == "}":
            depth -= 1
        j += 1
    return tokenize(text[i:j - 1]), params


def split_top(toks, sep):
    """split a token list at separator tokens that are at nesting depth 0"""
    parts, cur, d = [], [], 0
    for t in toks:
        if t in "([{":
            d += 1
        elif t in ")]}":
            d -= 1
        if t == sep and d == 0:
            parts.append(cur)
            cur = []
        else:
            cur.append(t)
    parts.append(cur)
    return parts


TYPEWORDS = {"void", "float", "double", "volatile", "const", "unsigned", "int", "long", "char", "short", "signed", "*"}


def is_type(toks):
    return bool(toks) and all(t in TYPEWORDS or t.endswith("_t") for t in toks) and any(t != "*" for t in toks)


def matching(toks, i):
    d = 0
    for j in range(i, len(toks)):
        if toks[j] == "(":
            d += 1
        elif toks[j] == ")":
            d -= 1
            if d == 0:
                return j
    return -1


def strip_expr(toks):
    """remove redundant parentheses and leading casts"""
    toks = list(toks)
    while toks and toks[0] == "(":
        j = matching(toks, 0)
        if j == len(toks) - 1:
            toks = toks[1:-1]
        elif j > 0 and is_type(toks[1:j]):
            toks = toks[j + 1:]
        else:
            break
    return toks


def lvalue(toks):
    """('var', member|None) of  x  /  x.m ; else None"""
    toks = strip_expr(toks)
    if len(toks) == 1 and re.match(r"[A-Za-z_]\w*$", toks[0]):
        return (toks[0], None)
    if len(toks) == 3 and toks[1] == "." and re.match(r"[A-Za-z_]\w*$", toks[0]):
        return (toks[0], toks[2])
    return None


class Roles:
    def __init__(self, operand, incr):
        self.map = {operand: "ROperand", incr: "RInc"}
        self.order = ["ROld", "RNew", "RRes"]

    def assign(self, var):
        """a local variable is assigned: give it the next role if it has none"""
        if var not in self.map:
            self.map[var] = self.order.pop(0) if self.order else "RUnknown"
        return self.map[var]

    def use(self, var):
        return self.map.get(var, "RUnknown")


def parse_asm(toks):
    """__asm__ __volatile__ ( "tmpl" ... : outs : ins : clobbers )  ->  dict or None"""
    if not toks or toks[0] not in ("__asm__", "asm", "__asm"):
        return None
    i = 1
    while i < len(toks) and toks[i] in ("__volatile__", "volatile"):
        i += 1
    vol = i > 1
    if i >= len(toks) or toks[i] != "(" or matching(toks, i) != len(toks) - 1:
        return None
    secs = split_top(toks[i + 1:-1], ":")
    tmpl = "".join(t[1:-1] for t in secs[0] if t.startswith('"'))

    def operands(sec):
        res = []
        for part in split_top(sec, ","):
            if not part:
                continue
            cons = "".join(t[1:-1] for t in part if t.startswith('"'))
            k = next((n for n, t in enumerate(part) if t == "("), None)
            res.append((cons, part[k + 1:matching(part, k)] if k is not None else []))
        return res
    outs = operands(secs[1]) if len(secs) > 1 else []
    ins = operands(secs[2]) if len(secs) > 2 else []
    clob = ["".join(t[1:-1] for t in p if t.startswith('"')) for p in split_top(secs[3], ",")] if len(secs) > 3 else []
    return {"template": tmpl, "volatile": vol, "outs": outs, "ins": ins, "clobbers": clob}


def asm_cas(a):
    """x86 cmpxchg binding: primitive kind, result expr (accumulator out), expect expr (accumulator in), new expr, addr expr"""
    t = a["template"].replace("\\n", " ").replace("\\t", " ").strip()
    m = re.match(r"^(lock\s*;?\s*)?(cmpxchg[lq]?|xadd[lq]?)\s+%(\d)\s*,\s*\(%(\d)\)\s*;?$", t)
    if not m:
        return None
    lock, mn, src, mem = bool(m.group(1)), m.group(2), int(m.group(3)), int(m.group(4))
    ops = a["outs"] + a["ins"]
    if src >= len(ops) or mem >= len(ops):
        return None
    res = exp = None
    for k, (cons, e) in enumerate(a["outs"]):
        if cons in ("=a", "+a"):
            res = e
            acc = k
            if cons == "+a":
                exp = e
    for cons, e in a["ins"]:
        if cons == "a" or (res is not None and cons == str(acc)):
            exp = e
    kind = ("AsmLockCmpxchg" if lock else "AsmCmpxchg") if mn.startswith("cmpxchg") else ("AsmLockXadd" if lock else "AsmXadd")
    return {"prim": kind, "res": res, "expect": exp, "new": ops[src][1], "addr": ops[mem][1],
            "memclob": "memory" in a["clobbers"] and a["volatile"]}


UNKNOWN_LOOP = dict(width=0, is_loop=False, load_dst="RUnknown", load_src="RUnknown", load_volatile=False,
                    add_dst="RUnknown", add_a="RUnknown", add_b="RUnknown", prim="PrimUnknown", cas_res="RUnknown",
                    cas_expect="RUnknown", cas_new="RUnknown", cas_addr="RUnknown", cas_memclob=False, cas_intview=False,
                    retry_ne=False, retry_a="RUnknown", retry_b="RUnknown", retry_intview=False, ret="RUnknown")


def parse_loop(toks, params, info):
    """body of qthread_fincr / qthread_dincr"""
    L = dict(UNKNOWN_LOOP)
    if toks is None or len(params) != 2:
        return L
    if toks[:1] == ["return"] and len(toks) > 2 and toks[1].endswith("_") and toks[2] == "(":
        L["prim"] = "MutexCall"
        return L
    roles = Roles(params[0], params[1])
    # union { T a; U b; } x, y, z;
    members = {}
    rest = toks
    if toks[:2] == ["union", "{"]:
        k = toks.index("}")
        for decl in split_top(toks[2:k], ";"):
            if len(decl) >= 2:
                members[decl[-1]] = " ".join(decl[:-1])
        semi = toks.index(";", k)
        rest = toks[semi + 1:]
    intm = {m: int(re.search(r"uint(\d+)_t", t).group(1)) for m, t in members.items() if re.search(r"uint(\d+)_t", t)}
    fltm = {m for m, t in members.items() if t in ("float", "double")}
    if len(intm) == 1:
        L["width"] = list(intm.values())[0]
    # do { body } while ( cond ) ; return e ;
    if not (rest[:2] == ["do", "{"]):
        return L
    d, k = 0, 1
    for k in range(1, len(rest)):
        if rest[k] == "{":
            d += 1
        elif rest[k] == "}":
            d -= 1
            if d == 0:
                break
    body = [s for s in split_top(rest[2:k], ";") if s]
    after = rest[k + 1:]
    if not (after[:2] == ["while", "("]):
        return L
    j = matching(after, 1)
    cond = after[2:j]
    tail = after[j + 1:]
    well_formed = tail[:1] == [";"] and tail[1:2] == ["return"] and tail[-1:] == [";"] and tail.count(";") == 2
    retexpr = tail[2:-1] if well_formed else []
    ok_order = len(body) == 3
    for n, s in enumerate(body[:3]):
        eq = split_top(s, "=")
        if n == 0:          # load
            if len(eq) == 2 and lvalue(eq[0]):
                v, m = lvalue(eq[0])
                rhs = eq[1]
                mm = None
                if rhs[:2] == ["*", "("]:
                    jj = matching(rhs, 1)
                    cast = rhs[2:jj]
                    src = lvalue(rhs[jj + 1:])
                    if src and is_type(cast):
                        mm = (("volatile" in cast), src[0])
                elif rhs[:1] == ["*"] and lvalue(rhs[1:]):
                    mm = (False, lvalue(rhs[1:])[0])
                if mm and (m in fltm or not members):
                    L["load_dst"] = roles.assign(v)
                    L["load_volatile"], L["load_src"] = mm[0], roles.use(mm[1])
                else:
                    ok_order = False
            else:
                ok_order = False
        elif n == 1:        # add
            if len(eq) == 2 and lvalue(eq[0]):
                v, m = lvalue(eq[0])
                ab = split_top(eq[1], "+")
                if len(ab) == 2 and lvalue(ab[0]) and lvalue(ab[1]) and (m in fltm or not members):
                    a, b = lvalue(ab[0]), lvalue(ab[1])
                    L["add_a"], L["add_b"] = roles.use(a[0]), roles.use(b[0])
                    if (a[1] is not None and a[1] not in fltm) or (b[1] is not None and b[1] not in fltm):
                        ok_order = False
                    L["add_dst"] = roles.assign(v)
                else:
                    ok_order = False
            else:
                ok_order = False
        else:               # the primitive
            a = parse_asm(s)
            exprs = None
            if a:
                info["asm_" + info["name"]] = a["template"]
                c = asm_cas(a)
                if c and c["prim"] in ("AsmLockCmpxchg", "AsmCmpxchg") and c["res"] is not None and c["expect"] is not None:
                    L["prim"], L["cas_memclob"] = c["prim"], c["memclob"]
                    exprs = (c["res"], c["expect"], c["new"], c["addr"])
            elif len(eq) == 2 and lvalue(eq[0]):
                call = strip_expr(eq[1])
                if call[:2] == ["__sync_val_compare_and_swap", "("] and matching(call, 1) == len(call) - 1:
                    args = split_top(call[2:-1], ",")
                    if len(args) == 3:
                        L["prim"], L["cas_memclob"] = "BuiltinCAS", True
                        exprs = (eq[0], args[1], args[2], args[0])
            if exprs:
                res, exp, new, addr = [lvalue(e) for e in exprs]
                if res and exp and new and addr:
                    L["cas_expect"], L["cas_new"], L["cas_addr"] = roles.use(exp[0]), roles.use(new[0]), roles.use(addr[0])
                    L["cas_res"] = roles.assign(res[0])
                    L["cas_intview"] = all(x[1] in intm for x in (res, exp, new)) and addr[1] is None
            else:
                ok_order = False
    c = None
    for opr in ("!=", "=="):
        parts = split_top(cond, opr)
        if len(parts) == 2 and lvalue(parts[0]) and lvalue(parts[1]):
            c = (opr, lvalue(parts[0]), lvalue(parts[1]))
    if c:
        L["retry_ne"] = c[0] == "!="
        L["retry_a"], L["retry_b"] = roles.use(c[1][0]), roles.use(c[2][0])
        L["retry_intview"] = c[1][1] in intm and c[2][1] in intm
    r = lvalue(retexpr)
    if r and (r[1] in fltm or not members):
        L["ret"] = roles.use(r[0])
    L["is_loop"] = ok_order and well_formed
    return L


def parse_call(expr, argmap):
    """an expression that is (cast)* prim(args)  ->  call_shape dict"""
    C = dict(prim="PrimUnknown", a0="ANone", a1="ANone", a2="ANone", returns=False)
    e = strip_expr(expr)
    if len(e) < 3 or e[1] != "(" or matching(e, 1) != len(e) - 1:
        return C
    name = e[0]
    C["prim"] = {"__sync_fetch_and_add": "BuiltinFetchAdd", "__sync_val_compare_and_swap": "BuiltinCAS"}.get(
        name, "MutexCall" if name.endswith("_") else "PrimUnknown")
    args = [a for a in split_top(e[2:-1], ",") if a]
    for k, a in enumerate(args[:3]):
        lv = lvalue(a)
        C["a%d" % k] = argmap.get(lv[0], "AOther") if lv and lv[1] is None else "AOther"
    if len(args) > 3:
        C["prim"] = "PrimUnknown"
    C["returns"] = True
    return C


def extract(repo=None):
    text = preprocess(repo)
    head, _, probes = text.partition("@@MUTEX")
    info = {}
    sh = {}
    sh["mutex_increment"] = probes.split("@@MACRO")[0].strip() != "no"
    for name in ("fincr", "dincr"):
        toks, params = func_body(head, "qthread_" + name)
        info["name"] = name
        sh[name] = parse_loop(toks, params, info)
    for name in ("incr32", "incr64"):
        toks, params = func_body(head, "qthread_" + name)
        C = dict(prim="PrimUnknown", a0="ANone", a1="ANone", a2="ANone", returns=False)
        if toks and toks[0] == "return" and toks[-1] == ";" and toks.count(";") == 1 and len(params) == 2:
            C = parse_call(toks[1:-1], {params[0]: "AAddr", params[1]: "AInc"})
        sh[name] = C
    toks, params = func_body(head, "qthread_incr_xx")
    flat = " ".join(toks or [])
    sh["xx32"] = bool(len(params) == 3 and re.search(
        r"switch \( %s \) \{ case 4 : return qthread_incr32 \( \( uint32_t \* \) %s , %s \) ; "
        r"case 8 : return qthread_incr64 \( \( uint64_t \* \) %s , %s \) ;" % (
            params[2], params[0], params[1], params[0], params[1]), flat))
    amap = {"ADDR": "AAddr", "INCVAL": "AInc", "OLDV": "AOld", "NEWV": "ANew"}
    for block in probes.split("@@MACRO")[1:]:
        block = block.split("@@END")[0]
        name, _, body = block.strip().partition("\n")
        sh[name.strip()] = parse_call(tokenize(body), amap)
        info["macro_" + name.strip()] = " ".join(body.split())
    info.pop("name", None)
    return sh, info


def coq_bool(b):
    return "true" if b else "false"


def to_coq(sh, info):
    def loop(L):
        return ("mkLoop %d %s %s %s %s %s %s %s %s %s %s %s %s %s %s %s %s %s %s %s" % (
            L["width"], coq_bool(L["is_loop"]), L["load_dst"], L["load_src"], coq_bool(L["load_volatile"]),
            L["add_dst"], L["add_a"], L["add_b"], L["prim"], L["cas_res"], L["cas_expect"], L["cas_new"], L["cas_addr"],
            coq_bool(L["cas_memclob"]), coq_bool(L["cas_intview"]), coq_bool(L["retry_ne"]), L["retry_a"], L["retry_b"],
            coq_bool(L["retry_intview"]), L["ret"]))

    def call(C):
        return "mkCall %s %s %s %s %s" % (C["prim"], C["a0"], C["a1"], C["a2"], coq_bool(C["returns"]))
    lines = ["(* GENERATED on every run by lib/verif/props/c18_shape.py from include/qthread/qthread.h preprocessed with the",
             "   repo's configuration -- do not edit.  Source facts (for the reader):"]
    for k in sorted(info):
        lines.append("     %s: %s" % (k, info[k].replace("*)", "* )").replace("(*", "( *")))
    lines += ["*)", "From Coq Require Import ZArith.", "From QV Require Import Atomics.Model.", "Local Open Scope Z_scope.", "",
              "Definition gen_shape : shape :=", "  mkShape %s" % coq_bool(sh["mutex_increment"]),
              "    (%s)" % loop(sh["fincr"]), "    (%s)" % loop(sh["dincr"]),
              "    (%s)" % call(sh["incr32"]), "    (%s)" % call(sh["incr64"]), "    (%s)" % call(sh["incr"]),
              "    %s" % coq_bool(sh["xx32"]),
              "    (%s)" % call(sh["cas"]), "    (%s)" % call(sh["cas32"]), "    (%s)" % call(sh["cas64"]),
              "    (%s)." % call(sh["cas_ptr"]), ""]
    return "\n".join(lines)


GEN_PATH = os.path.join(core.COQ, "theories", "Atomics", "GenShape.v")


def regenerate(repo=None):
    """returns (shape dict, info, changed?)"""
    sh, info = extract(repo)
    txt = to_coq(sh, info)
    old = open(GEN_PATH).read() if os.path.exists(GEN_PATH) else None
    if old != txt:
        tmp = GEN_PATH + ".tmp%d" % os.getpid()
        with open(tmp, "w") as f:
            f.write(txt)
        os.replace(tmp, GEN_PATH)
    return sh, info, old != txt


def expected_problems(sh):
    """python mirror of Model.shape_ok, for the report only (the obligation is the Coq lemma shape_is_expected)"""
    bad = []
    if sh["mutex_increment"]:
        bad.append("QTHREAD_MUTEX_INCREMENT is defined")
    if not sh["xx32"]:
        bad.append("qthread_incr_xx does not dispatch 4->incr32, 8->incr64")
    want = dict(is_loop=True, load_dst="ROld", load_src="ROperand", load_volatile=True, add_dst="RNew", add_a="ROld",
                add_b="RInc", cas_res="RRes", cas_expect="ROld", cas_new="RNew", cas_addr="ROperand", cas_memclob=True,
                cas_intview=True, retry_ne=True, retry_a="RRes", retry_b="ROld", retry_intview=True, ret="ROld")
    for name, w in (("fincr", 32), ("dincr", 64)):
        L = sh[name]
        for k, v in want.items():
            if L[k] != v:
                bad.append("qthread_%s: %s is %s, expected %s" % (name, k, L[k], v))
        if L["width"] != w:
            bad.append("qthread_%s: width %s" % (name, L["width"]))
        if L["prim"] not in ("AsmLockCmpxchg", "BuiltinCAS"):
            bad.append("qthread_%s: primitive %s is not an atomic compare-and-swap" % (name, L["prim"]))
    for name in ("incr32", "incr64", "incr"):
        C = sh[name]
        if not (C["prim"] in ("BuiltinFetchAdd", "AsmLockXadd") and (C["a0"], C["a1"], C["a2"]) == ("AAddr", "AInc", "ANone") and C["returns"]):
            bad.append("qthread_%s: %s" % (name, C))
    for name in ("cas", "cas32", "cas64", "cas_ptr"):
        C = sh[name]
        if not (C["prim"] in ("BuiltinCAS", "AsmLockCmpxchg") and (C["a0"], C["a1"], C["a2"]) == ("AAddr", "AOld", "ANew") and C["returns"]):
            bad.append("qthread_%s: %s" % (name, C))
    return bad


if __name__ == "__main__":
    import json
    import sys
    s, i = extract(sys.argv[1] if len(sys.argv) > 1 else None)
    print(json.dumps(s, indent=1))
    print(json.dumps(i, indent=1))
    print(expected_problems(s))
    print(to_coq(s, i))
