"""C04 progress (extension M): completion, not only safety.

Model: coq/theories/Kernel/Progress.v = Kernel/Model.v composed with the sherwood queues of TQueue/Model.v (scheduler step =
pop of the own queue / steal per the C scan; task bodies = finite lists of operations); theorems
Properties/Properties_C04_progress.v (queue_simulation, enabled_if_work_{own,pop,steal}, busy_worker_can_step, measure_decreases,
executions_finite, every_spawn_runs_exactly_once (+ _maximal), spawn_failure_leaves_no_trace, ...).

Tie: every real run of harness/c/c04_progress.c (= c04_kernel.c + end-of-run hooks + white-box sherwood queue accessor +
fault injection into qthread_spawn's return-location preparation) is (a) accepted event by event by the kernel acceptor
(ocaml/c04progress_driver.ml: c04_driver's translation + failed spawns as the model's spawn_call) and (b) must satisfy the
extracted end-of-run predicate [quiescent_ok] of Progress.v: every successfully spawned task TERMINATED, started exactly once,
its descriptor handed back to the pool (the harness waits for pool allocs == frees before cutting the log, so this does not
depend on timing), no reference left in any queue / worker / waiter list, and the REAL ready queues empty (qlength,
qlength_stealable, head/tail and a walk of the node list, read white-box under the queue lock).
Oracle (independent of the model): c04.oracle_c04 on body events + the raw end-of-run observations.
"""
import json
import os
from .. import core

SRCS = ["c04_progress.c", "c04_progress_wb_qthread.c", "c04_wb_feb.c", "c04_wb_syncvar.c", "c04_wb_io.c", "c04_progress_wb_tq.c"]
EXCL = ["qthread.c", "feb.c", "syncvar.c", "io.c", "threadqueues/sherwood_threadqueues.c"]


def prepare(ctx):
    exe = ctx.link("c04_progress", SRCS, exclude=EXCL)
    ok, log = ctx.coq_make(["theories/Kernel/ExtractProgress.vo"])
    if not ok:
        raise core.BuildError("Kernel/Progress.v does not compile / extract:\n" + log[-2000:])
    drv = ctx.model_driver("c04progress_driver")
    return exe, drv


# ------------------------------------------------------------------ scenarios aimed at the branches the theorems split on
def small_steal(c04, rng, layout, ns=2, chunk=None):
    """the victim (shepherd 0) holds exactly the given few nodes: U = pinned to shepherd 0 (unstealable), S = stealable"""
    return c04.gen_steal_scenario(rng, ns, layout=layout, chunk=chunk)


def gen_failure_scenario(c04, rng, ns, nw):
    """main and its children spawn leaf tasks over the variants that have a FEB / syncvar return location; for some of
    them the preparation of the return location fails (fault injection): no task may exist for those"""
    V = c04.V
    sc = c04.Scenario()
    sc.ns, sc.nw, sc.profile, sc.watchdog = ns, nw, "spawnfail", 25
    main = dict(variant=0, target=-1, asize=0, retkind=0, pre=-1, ops=[], parent=None)
    sc.tasks[0] = main
    n = rng.range(4, 10)
    withret = [V["FORK"], V["FORK_TO"], V["COPYARGS"], V["COPYARGS_TO"], V["SYNCVAR"], V["SYNCVAR_TO"], V["SYNCVAR_COPYARGS"],
               V["SYNCVAR_COPYARGS_SIMPLE"], V["PRECOND"], V["PRECOND_TO"], V["COPYARGS_PRECOND"], V["SYNCVAR_COPYARGS_TO"], V["NET"]]
    fail = []
    parents = [0]
    for tag in range(1, n + 1):
        v = rng.choice(withret)
        parent = rng.choice(parents)
        t = dict(variant=v, target=-1, asize=0, retkind=c04.RETKIND[v], pre=-1, ops=[], parent=parent)
        if v in c04.TO:
            t["target"] = rng.below(ns)
        if v in c04.COPY:
            t["asize"] = rng.choice([8, 64, 1024, 1025])
        failing = rng.chance(2, 5)
        if failing:
            fail.append(tag)
        else:
            simple = v in c04.SIMPLE
            t["ops"] = [rng.choice(["u3", "u9"]) if simple else rng.choice(["y", "y", "u5", "m%d" % rng.below(ns), "m-1"])
                        for _ in range(rng.range(0, 3))]
            if not simple:
                parents.append(tag)
        sc.tasks[tag] = t
        p = sc.tasks[parent]
        p["ops"].insert(rng.below(len(p["ops"]) + 1), "c%d" % tag)
    if not fail:
        # make the last leaf fail
        fail.append(n)
        sc.tasks[n]["ops"] = [o for o in sc.tasks[n]["ops"] if o[0] != "c"]
    # a failing task has no program of its own that anybody depends on: move its spawn ops (if any) to main
    for tag in fail:
        for o in [o for o in sc.tasks[tag]["ops"] if o[0] == "c"]:
            sc.tasks[tag]["ops"].remove(o)
            main["ops"].append(o)
            sc.tasks[int(o[1:])]["parent"] = 0
    sc.env["C04P_FAIL"] = ",".join(str(t) for t in fail)
    sc.fail = fail
    return sc


def to_json(sc, status=None):
    j = sc.to_json()
    if status:
        j["status"] = status
    if getattr(sc, "fail", None):
        j["failing_spawns"] = sc.fail
    j["harness"] = "c04_progress"
    return j


def scenario_from_json(c04, j):
    sc = c04.scenario_from_json(j)
    sc.fail = j.get("failing_spawns", [])
    return sc


def corpus(c04):
    d = os.path.join(core.VERIF, "corpus", "C04")
    out = []
    if os.path.isdir(d):
        for fn in sorted(os.listdir(d)):
            if fn.startswith("progress_") and fn.endswith(".pj"):
                out.append(scenario_from_json(c04, json.load(open(os.path.join(d, fn)))))
    return out


# ------------------------------------------------------------------ running one scenario
def run_real(c04, exe, sc):
    """c04.run_scenario + the Z / Y lines"""
    env = core.qenv(sc.ns, sc.nw, stack=65536, **sc.env)
    rc, out, err = core.run_lines(exe, sc.lines(), timeout=sc.watchdog + 45, env=env)
    if not out or not out[0].startswith("H "):
        return dict(status="crash" if rc < 0 else "nostart", rc=rc, err=err[-400:], header=None, events=[], tail="", z=[], y=None)
    ev = [l for l in out[1:] if l and l[0].isdigit()]
    tail = out[-1]
    status = "end" if tail.startswith("END") else "timeout" if tail.startswith("TIMEOUT") else "crash"
    if status == "end" and int(tail.split()[1]) >= (1 << 20):
        status = "overflow"
    z = [tuple(int(x) for x in l.split()[1:]) for l in out[1:] if l.startswith("Z ")]
    y = [tuple(int(x) for x in l.split()[1:]) for l in out[1:] if l.startswith("Y ")]
    return dict(status=status, rc=rc, err=err[-400:], header=out[0], lists=[l for l in out[1:] if l.startswith("L ")],
                events=ev, tail=tail, z=z, y=y[0] if y else None, zraw=[l for l in out[1:] if l[:2] in ("Z ", "Y ")])


def accept(drv, sc, res):
    lines = [res["header"]] + [l for l in sc.lines() if l.startswith("T ")] + res["events"] + res["zraw"] + [res["tail"] or "END 0"]
    rc, out, err = core.run_lines(drv, lines, timeout=120)
    r = dict(ok=False, reason="driver produced nothing: " + err[-200:], fin=False, labels=0, quiescent=None, qwhy="")
    for l in out:
        if l.startswith("ACCEPT"):
            r["ok"], r["reason"] = True, ""
            r["labels"] = int(l.split()[1])
        elif l.startswith("REJECT"):
            r["ok"], r["reason"] = False, l
        elif l.startswith("FIN"):
            r["fin"] = l.startswith("FIN ok")
        elif l.startswith("QUIESCENT"):
            r["quiescent"] = l.startswith("QUIESCENT ok")
            r["qwhy"] = l[len("QUIESCENT bad"):].strip() if not r["quiescent"] else ""
    return r


def oracle_end(c04, sc, res, evs):
    """the property on raw observations (no model): body-level oracle of C04 restricted to the spawns that succeeded +
    nothing left behind at the end of the run + a failed spawn runs nothing"""
    fails = []
    failset = set(getattr(sc, "fail", []) or [])
    rcs = {}
    begins = {}
    for (seq, k, thr, a, b, c, d, e, f) in evs:
        if k == "s":
            rcs[a] = b
        elif k == "B":
            begins[a] = begins.get(a, 0) + 1
    for tag in sorted(failset):
        if tag in rcs and rcs[tag] == 0:
            fails.append("progress:failed-spawn-reported-success tag %d: the preparation of its return location failed, qthread_spawn returned QTHREAD_SUCCESS" % tag)
        if begins.get(tag):
            fails.append("progress:failed-spawn-ran tag %d: qthread_spawn returned error %s and the body ran %d time(s)" % (tag, rcs.get(tag), begins[tag]))
    # body-level oracle of C04 on the tasks that must exist
    sub = c04.Scenario()
    sub.ns, sub.nw, sub.env, sub.profile, sub.watchdog = sc.ns, sc.nw, sc.env, sc.profile, sc.watchdog
    sub.tasks = {t: v for t, v in sc.tasks.items() if t not in failset}
    evs2 = [e for e in evs if not (e[1] in ("S", "s") and ((e[4] if e[1] == "S" else e[3]) in failset))]
    fails += ["progress:" + w if not w.startswith("progress:") else w for w in c04.oracle_c04(sub, res, evs2)]
    if res["status"] == "end":
        for (i, ql, qs, walk, nohead) in res["z"]:
            if ql != 0 or qs != 0 or walk != 0 or nohead != 1:
                fails.append("progress:queue-not-empty at the end of the run (every scripted task has finished): ready queue of shepherd %d has "
                             "qlength=%d qlength_stealable=%d, %d node(s) linked from head, head/tail %s" % (
                                 i, ql, qs, walk, "NULL" if nohead == 1 else "set"))
        if res["y"] and res["y"][0] != res["y"][1]:
            fails.append("progress:descriptor-not-freed %d task descriptors were taken from the qthread pools during the run and only %d were "
                         "handed back %d ms after the last task had finished" % (res["y"][0], res["y"][1], res["y"][2]))
    return fails


def run(ctx, c04):
    """returns (proof result, correspondence failures, oracle failures) in c04.verdict's formats"""
    import time
    t_start = time.time()
    rng = ctx.rng.fork()
    quick = ctx.tier == "quick"
    exe, drv = prepare(ctx)
    # the theorems are re-checked (Print Assumptions of 16 theorems: ~9 s of coqc) while the scenarios run
    import threading
    from concurrent.futures import ThreadPoolExecutor
    prbox = {}
    th = threading.Thread(target=lambda: prbox.update(pr=ctx.coq_properties("Properties/Properties_C04_progress.v")))
    th.start()
    scs = corpus(c04)
    r = rng.fork()
    # the victim holds exactly one unstealable and one or two stealable tasks (stranded work if the scan drops the last one)
    for layout in (["US", "SU", "USS", "SUS"] if quick else ["US", "SU", "USS", "SUS", "SSU", "UUS", "SUU", "USU", "S", "UUSS"]):
        for ch in ([None] if quick else [0, 1, 3]):
            scs.append(small_steal(c04, r, layout, ns=r.choice([2, 2, 3]), chunk=ch))
    for i in range(1 if quick else 20):
        scs.append(c04.gen_steal_scenario(r, r.choice([2, 3])))
    r = rng.fork()
    configs = [(1, 1), (2, 2), (3, 1), (1, 3)] if quick else [(1, 1), (2, 1), (2, 2), (3, 1), (4, 1), (3, 2), (1, 4), (4, 2), (6, 1)]
    for (ns, nw) in configs:
        for i in range(1 if quick else 8):
            scs.append(c04.gen_scenario(r, ns, nw, "c04"))
        if ns > 1:
            for i in range(1 if quick else 6):
                scs.append(c04.gen_scenario(r, ns, nw, "c07"))       # pinning, migrate_to, disable/enable windows (re-route)
        for i in range(1 if quick else 6):
            scs.append(gen_failure_scenario(c04, r, ns, nw))
    corr, orc = [], []
    st = dict(runs=0, labels=0, quiescent_ok=0, failed_spawns=0, steals=0, profiles={}, nontrivial=0, waited_ms_max=0, samples=[])
    def one(sc):
        res = run_real(c04, exe, sc)
        acc = accept(drv, sc, res) if (res["status"] == "end" and res.get("header")) else None
        return res, acc

    pool = ThreadPoolExecutor(max_workers=3)
    results = []
    for k in range(0, len(scs), 3):
        if len(results) and (sum(1 for (_, r, a) in results if r["status"] != "end" or not a or not a["ok"] or a["quiescent"] is not True) >= 6):
            ctx.notes.append("progress: stopped after %d runs (enough failing cases collected)" % len(results))
            break
        chunk = scs[k:k + 3]
        for sc, (res, acc) in zip(chunk, pool.map(one, chunk)):
            results.append((sc, res, acc))
    pool.shutdown()
    for (sc, res, acc) in results:
        st["runs"] += 1
        st["profiles"][sc.profile] = st["profiles"].get(sc.profile, 0) + 1
        if res["status"] == "nostart":
            raise core.BuildError("c04_progress harness did not start on %dx%d: rc=%s %s" % (sc.ns, sc.nw, res["rc"], res["err"]))
        if res["status"] == "overflow":
            ctx.notes.append("progress: event log overflow on a scenario (skipped)")
            continue
        if res["status"] == "crash" and res["header"] is None:
            res["tail"] = ""
        evs = c04.parse_events(res)
        replay = to_json(sc, res["status"])
        for w in oracle_end(c04, sc, res, evs):
            orc.append((w, replay))
        if res["status"] != "end":
            corr.append(("progress: the real runtime did not reach quiescence on a script whose model run terminates (%s%s)" % (
                res["status"], (", signal %d" % -res["rc"]) if res["status"] == "crash" and res["rc"] < 0 else ""), replay))
            continue
        a = acc
        st["labels"] += a["labels"]
        if not a["ok"]:
            corr.append(("progress: " + (a["reason"] or "not accepted"), replay))
            continue
        if a["quiescent"] is not True:
            corr.append(("progress: the end state of the real run does not satisfy Kernel.Progress.quiescent_ok:" + (" " + a["qwhy"] if a["qwhy"] else " (no verdict)"), replay))
            continue
        st["quiescent_ok"] += 1
        nfail = len(getattr(sc, "fail", []) or [])
        st["failed_spawns"] += nfail
        stolen = 0
        thr_of = {}
        for (seq, k, thr, a_, b, c, d, e, f) in evs:
            if k == "Q":
                thr_of[a_] = b
            elif k == "G" and a_ in thr_of and thr_of[a_] != b:
                stolen += 1
        st["steals"] += stolen
        if res["y"]:
            st["waited_ms_max"] = max(st["waited_ms_max"], res["y"][2])
        if stolen or nfail:
            st["nontrivial"] += 1
            if len(st["samples"]) < 3:
                st["samples"].append(dict(config=[sc.ns, sc.nw], profile=sc.profile, script=sc.lines()[1:5], steals=stolen, failed_spawns=nfail,
                                          descriptors=res["y"][0] if res["y"] else None))
    th.join()
    pr = prbox.get("pr") or {"file": "Properties/Properties_C04_progress.v", "ok": False, "log": "coq_properties did not return", "theorems": []}
    ctx.cov["progress"] = dict(
        runs=st["runs"], quiescent_ok_holds=st["quiescent_ok"], model_labels_accepted=st["labels"], failed_spawns_injected=st["failed_spawns"],
        tasks_taken_from_another_shepherds_queue=st["steals"], runs_with_steal_or_failed_spawn=st["nontrivial"], profiles=st["profiles"],
        max_wait_for_pool_balance_ms=st["waited_ms_max"], samples=st["samples"], wall_s=round(time.time() - t_start, 2),
        rule="every run: kernel acceptor + extracted quiescent_ok on the final kernel state and the white-box queue observations; "
             "non-trivial = at least one task dequeued by a shepherd other than the one it was enqueued on, or a failed spawn")
    ctx.assumptions += ["progress theorems: executions without qthread_disable_shepherd / qthread_yield_near; blocked tasks are released by the "
                        "environment (C02/C03/C20) - hypothesis `released` (or maximality w.r.t. the environment's release events); spawn failures are provoked by fault injection at "
                        "the qthread.c -> feb.c/syncvar.c call boundary (the real failure needs malloc failure or a 2^31-iteration lock timeout)"]
    return pr, corr, orc


def replay(ctx, c04, j):
    """re-run one stored scenario of this module"""
    exe, drv = prepare(ctx)
    sc = scenario_from_json(c04, j)
    corr, orc = [], []
    for rep in range(5):
        res = run_real(c04, exe, sc)
        evs = c04.parse_events(res)
        rp = to_json(sc, res["status"])
        orc += [(w, rp) for w in oracle_end(c04, sc, res, evs)]
        if res["status"] != "end":
            corr.append(("progress: run ended with %s" % res["status"], rp))
            continue
        a = accept(drv, sc, res)
        if not a["ok"]:
            corr.append(("progress: " + a["reason"], rp))
        elif a["quiescent"] is not True:
            corr.append(("progress: quiescent_ok fails: " + a["qwhy"], rp))
    return corr, orc
