"""C09 task-private state: task-local storage and task identity.
Model: coq/theories/Kernel/{Tasklocal,Ident}.v; harness: harness/c/c09_tasklocal.c (white-box qthread.c).
M2 (controller-stepped op interleavings, exact compare incl. ids around the 32-bit wrap) and M4 (free-running
tasks with rendezvous overlap audits) in a live runtime, several QT_ARGCOPY_SIZE / QT_TASKLOCAL_SIZE variants."""
import json
from .. import core
from . import _gen
from . import _c09_micro

M32 = 1 << 32
M64 = 1 << 64
UINT_MAX = M32 - 1


def pat(seed, i):
    return (seed * 131 + i * 7 + (i >> 8)) & 0xff


# ----------------------------------------------------------------------------- generation
def gen_sizes(rng, TL, n):
    """request sequence aimed at the branch boundaries: <= TL (in place), first blob, reuse (<= current), realloc (> current)"""
    base = [0, 1, max(0, TL - 1), TL, TL + 1, TL + 7, TL + 8, 2 * TL, 2 * TL + 1, 100, 255, 256, 257, 1000, 4096, 5000]
    out = []
    cur = 0
    for _ in range(n):
        c = rng.below(10)
        if c < 3:
            s = rng.choice(base)
        elif c < 5:
            s = (cur if cur else TL) + rng.choice([1, 1, 2, 8, 100, 1000])     # grow just above the current size
        elif c < 7:
            s = max(0, (cur if cur else TL) - rng.choice([0, 0, 1, 5]))         # at / just below the current size
        elif c < 8:
            s = rng.range(0, TL)
        else:
            s = rng.range(0, 6000)
        s = min(s, 6000)
        out.append(s)
        if s > max(cur, TL):
            cur = s
    return out


def gen_task(rng, cfg, slot, nsheps, stepped, nx):
    AC, TL = cfg["AC"], cfg["TL"]
    argc = [0, 0, 4, 8, max(4, AC - 1), max(4, AC), AC + 1, AC + 100, max(4, AC // 2)]
    argsz = rng.choice(argc)
    shep = rng.choice([-1, -1, -1, rng.below(nsheps)])
    ng = rng.range(2, 6)
    ops = []
    seed = slot * 17 + rng.below(1000)
    for s in gen_sizes(rng, TL, ng):
        ops.append("g%d" % s)
        if rng.chance(5, 6):
            seed += 1
            ops.append("w%d" % seed)
        r = rng.below(12)
        if r < 3:
            ops.append("y%d" % rng.range(1, 3))
        elif r == 3 and nsheps > 1:
            ops.append("m%d" % rng.below(nsheps))
        elif r == 4:
            ops.append("b")
        elif r == 5:
            ops.append("i")
        elif r == 6:
            ops.append("s")
        elif r == 7:
            ops.append("a")
    ops.append("g0")                      # final read-back of whatever is current
    ops += rng.choice([["i"], ["i", "a"], ["a", "s"], ["s", "i"]])
    if not stepped and nx:
        # insert nx rendezvous points at random positions (after the first get)
        for _ in range(nx):
            ops.insert(rng.range(1, len(ops)), "x")
    return dict(slot=slot, argsz=argsz, shep=shep, ops=ops[:44])


COUNTERS = [1, 2, M32 - 3, M32 - 2, M32 - 1, M32, M32 + 1, 2 * M32 - 2, 2 * M32 - 1, 2 * M32, 3 * M32 - 1, 7 * M32 - 2,
            M64 - 3, M64 - 2, M64 - 1, M64 - M32 - 1, M64 - M32 - 2]


def gen_case(rng, cfg, nsheps, stepped, quick):
    nt = rng.range(2, 6) if stepped else rng.range(3, 12 if quick else 24)
    nx = 0 if stepped else rng.range(1, 2)
    tasks = [gen_task(rng, cfg, s, nsheps, stepped, nx) for s in range(nt)]
    if rng.chance(3, 4):
        ctr = rng.choice(COUNTERS)
        if rng.chance(1, 3):
            ctr = (ctr - rng.below(nt + 1)) % M64
    else:
        ctr = rng.range(1, M64 - 1)
    order = []
    if stepped:
        rem = {t["slot"]: len(t["ops"]) for t in tasks}
        pool = [s for s in rem for _ in range(rem[s])]
        order = rng.shuffle(pool)
    return dict(stepped=stepped, counter=ctr, tasks=tasks, order=order)


def case_lines(case):
    ls = ["C %d" % case["counter"]]
    for t in case["tasks"]:
        ls.append("T %d %d %d %s" % (t["slot"], t["argsz"], t["shep"], " ".join(t["ops"])))
    ls.append(("S " + " ".join(map(str, case["order"]))) if case["stepped"] else "R")
    return ls


def split_runs(lines):
    runs, cur = [], []
    for l in lines:
        if l == "E":
            runs.append(cur)
            cur = []
        else:
            cur.append(l)
    return runs, cur


# ----------------------------------------------------------------------------- compare + oracle
def hex_match(impl, model):
    if len(impl) != len(model):
        return False
    for i in range(0, len(model), 2):
        if model[i:i + 2] != "??" and model[i:i + 2] != impl[i:i + 2]:
            return False
    return True


def compare(case, impl, model):
    """first disagreement between implementation and model lines of one run, or None"""
    il = [l for l in impl if not l.startswith("X ")]
    if len(il) != len(model):
        return "line count impl=%d model=%d" % (len(il), len(model))
    for a, b in zip(il, model):
        if a == b:
            continue
        pa, pb = a.split(" "), b.split(" ")
        if len(pa) > 2 and pa[2] == "g" and len(pa) == len(pb) and pa[:-1] == pb[:-1] and hex_match(pa[-1], pb[-1]):
            continue
        if len(pa) > 2 and pa[2] == "i" and not case["stepped"] and pa[:3] == pb[:3]:
            continue            # free-running: which task draws which id is schedule dependent (oracle checks them)
        return "impl `%s` model `%s`" % (a[:160], b[:160])
    return None


def oracle(case, impl, cfg, nsheps):
    """the property itself on the implementation's observed behaviour (no model involved)"""
    ids = {}
    for t in case["tasks"]:
        slot, cur, last_tlsz = t["slot"], None, 0
        lines = {}
        fin = None
        for l in impl:
            p = l.split(" ")
            if p[0] == str(slot):
                if p[1] == "f":
                    fin = p
                else:
                    lines[int(p[1])] = p
        for k, op in enumerate(t["ops"]):
            p = lines.get(k)
            if p is None:
                return "task %d op %d (%s) produced no result" % (slot, k, op)
            c = op[0]
            if c == "g":
                size = int(op[1:])
                if len(p) < 10:
                    return "task %d op %d: get_tasklocal(%d) returned NULL" % (slot, k, size)
                kind, off, avail, tlsz, same, ovl, hx = p[3], int(p[4]), int(p[5]), int(p[6]), p[7], p[8], p[9]
                data = bytes.fromhex(hx)
                if avail < size:
                    return "task %d op %d: get_tasklocal(%d) gives only %d bytes" % (slot, k, size, avail)
                if not ovl.startswith("1"):
                    return "task %d op %d: region overlaps another live region (%s)" % (slot, k, ovl)
                if same != "1":
                    return "task %d op %d: descriptor of the task changed" % (slot, k)
                if cur is not None:
                    m = min(len(cur), len(data))
                    if data[:m] != cur[:m]:
                        j = next(i for i in range(m) if data[i] != cur[i])
                        return "task %d op %d: get_tasklocal(%d) lost byte %d of the %d bytes present before (was %02x now %02x)" % (
                            slot, k, size, j, m, cur[j], data[j])
                    if len(data) < len(cur):
                        return "task %d op %d: region shrank from %d to %d bytes" % (slot, k, len(cur), len(data))
                cur = data
                last_tlsz = tlsz
            elif c == "w":
                if cur is not None:
                    cur = bytes(pat(int(op[1:]), i) for i in range(len(cur)))
            elif c == "m":
                if p[3] != "0" or p[4] != op[1:]:
                    return "task %d op %d: migrate_to(%s) rc=%s then qthread_shep()=%s" % (slot, k, op[1:], p[3], p[4])
            elif c == "i":
                a, b, f = int(p[3]), int(p[4]), int(p[5])
                if a in (0, UINT_MAX):
                    return "task %d op %d: qthread_id() returned the reserved value %d" % (slot, k, a)
                if a != b or a != f:
                    return "task %d op %d: qthread_id() not stable: %d then %d (descriptor field %d)" % (slot, k, a, b, f)
                if slot in ids and ids[slot] != a:
                    return "task %d op %d: qthread_id() changed from %d to %d" % (slot, k, ids[slot], a)
                ids[slot] = a
            elif c == "s":
                if p[3:7] != ["1", "1", "1", "1"]:
                    return "task %d op %d: retloc/shep/stackleft/self do not describe the calling task: %s" % (slot, k, " ".join(p[3:7]))
            elif c == "a":
                if p[3] != "1":
                    return "task %d op %d: the task's argument (copy) was modified" % (slot, k)
        if fin is None:
            return "task %d never finished" % slot
        want = 1 if last_tlsz > 0 else 0
        if int(fin[2]) != want:
            return "task %d: blob released %s times at task end (expected %d)" % (slot, fin[2], want)
    inv = {}
    for s, i in ids.items():
        if i in inv:
            return "tasks %d and %d alive at the same time both have id %d" % (inv[i], s, i)
        inv[i] = s
    for l in impl:
        if l.startswith("X "):
            p = l.split(" ")
            if p[2] != "1":
                return "rendezvous %s: live regions overlap (%s)" % (p[1], " ".join(p[3:]))
        if l.startswith("BADRET") or l.startswith("TIMEOUT") or l.startswith("SPAWNFAIL"):
            return "run failed: " + l
    return None


def classify(case, cfg):
    """branch coverage of one case (for the evidence): which get_tasklocal branches / id branches it hits"""
    hits = set()
    TL = cfg["TL"]
    for t in case["tasks"]:
        cur = 0
        for op in t["ops"]:
            if op[0] == "g":
                s = int(op[1:])
                if cur == 0 and s <= TL:
                    hits.add("inplace")
                elif cur == 0:
                    hits.add("firstblob"); cur = s
                elif s <= cur:
                    hits.add("reuse")
                else:
                    hits.add("realloc"); cur = s
        if 0 < t["argsz"] <= cfg["AC"]:
            hits.add("bigstruct")
        elif t["argsz"] > cfg["AC"]:
            hits.add("heaparg")
    ni = sum(1 for t in case["tasks"] if "i" in t["ops"])
    c = case["counter"]
    for k in range(ni + 3):
        lo = (c + k) % M32
        if lo == UINT_MAX:
            hits.add("id_null_redraw")
        if lo == 0:
            hits.add("id_non_redraw")
    return hits


# ----------------------------------------------------------------------------- running
def run_config(ctx, exe, drv, sheps, workers, envkw, cases, timeout=1500):
    env = core.qenv(sheps, workers, stack=65536, **envkw)
    script = []
    for c in cases:
        script += case_lines(c)
    rc, out, err = core.run_lines(exe, script + ["Q"], timeout=timeout, env=env)
    if not out or not out[0].startswith("H "):
        raise core.BuildError("c09 harness did not start on %dx%d %s: rc=%s %s" % (sheps, workers, envkw, rc, err[-500:]))
    h = out[0].split()
    cfg = dict(AC=int(h[3]), TL=int(h[4]), stack=int(h[5]), nsheps=int(h[1]))
    runs, tail = split_runs(out[1:])
    impl = runs + [None] * (len(cases) - len(runs))
    if len(runs) < len(cases):
        # the process died / hung inside case len(runs): re-run the remaining cases one process each
        impl[len(runs)] = tail + ["TIMEOUT" if rc == -9 else "CRASH rc=%s" % rc]
        for j in range(len(runs) + 1, len(cases)):
            rc2, o2, e2 = core.run_lines(exe, case_lines(cases[j]) + ["Q"], timeout=400, env=env)
            r2, t2 = split_runs(o2[1:])
            impl[j] = r2[0] if r2 else t2 + ["TIMEOUT" if rc2 == -9 else "CRASH rc=%s" % rc2]
    mscript = ["K %d %d" % (cfg["AC"], cfg["TL"])]
    for c in cases:
        mscript += case_lines(c)
    rc3, mout, merr = core.run_lines(drv, mscript, timeout=timeout)
    mruns, _ = split_runs(mout)
    if len(mruns) != len(cases):
        raise core.BuildError("c09 model driver failed: rc=%s %s" % (rc3, merr[-500:]))
    return cfg, impl, mruns


def configs_for(tier):
    q = [(1, 1, {}), (2, 2, {}), (4, 1, dict(QT_ARGCOPY_SIZE=64, QT_TASKLOCAL_SIZE=32)),
         (2, 1, dict(QT_ARGCOPY_SIZE=100, QT_TASKLOCAL_SIZE=16)), (1, 2, dict(QT_ARGCOPY_SIZE=16, QT_TASKLOCAL_SIZE=24))]
    if tier == "quick":
        return q
    return q + [(1, 4, {}), (4, 4, {}), (3, 2, dict(QT_ARGCOPY_SIZE=4096, QT_TASKLOCAL_SIZE=256)),
                (2, 2, dict(QT_ARGCOPY_SIZE=8, QT_TASKLOCAL_SIZE=8)), (4, 1, dict(QT_TASKLOCAL_SIZE=4000)),
                (2, 3, dict(QT_ARGCOPY_SIZE=1000, QT_TASKLOCAL_SIZE=9))]


def corpus_cases():
    """fixed boundary cases that always run first (stepped, default sizes)"""
    cs = []
    # ids across the 32-bit wrap: draws 2^32-2, 2^32-1 (re-draw), then the values after the reserved ones
    cs.append(dict(stepped=True, counter=M32 - 2, order=[0, 1, 2, 3, 0, 1, 2, 3, 0, 1, 2, 3],
                   tasks=[dict(slot=s, argsz=0, shep=-1, ops=["i", "g0", "i"]) for s in range(4)]))
    cs.append(dict(stepped=True, counter=M32, order=[0, 1, 2, 0, 1, 2],
                   tasks=[dict(slot=s, argsz=0, shep=-1, ops=["i", "i"]) for s in range(3)]))
    cs.append(dict(stepped=True, counter=M64 - 1, order=[0, 1, 2, 0, 1, 2],
                   tasks=[dict(slot=s, argsz=8, shep=-1, ops=["i", "a"]) for s in range(3)]))
    # growth chain in place -> blob -> reuse -> realloc, with and without an in-descriptor argument copy
    for argsz in (0, 16, 5000):
        cs.append(dict(stepped=True, counter=5, order=[0] * 12 + [1] * 12,
                       tasks=[dict(slot=s, argsz=argsz, shep=-1,
                                   ops=["g8", "w1", "g9", "w2", "a", "g9", "g4", "w3", "g10", "g4000", "a", "g0"]) for s in range(2)]))
    return cs


def run(ctx):
    rng = ctx.rng
    quick = ctx.tier == "quick"
    _gen.regen(ctx, ["Ident"])      # Gen/Ident.v regenerated from the source + Properties_Gen_C09.v (tools/ctrans.py)
    pr = ctx.coq_properties("Properties/Properties_C09.v")
    ok, log = ctx.coq_make(["theories/Kernel/TasklocalExtract.vo"])
    if not ok:
        raise core.BuildError("Kernel/TasklocalExtract.v does not compile:\n" + log[-2000:])
    exe = ctx.link("c09_tasklocal", ["c09_tasklocal.c"], exclude=["qthread.c"])
    drv = ctx.model_driver("c09_driver")
    nstep, nfree = (22, 10) if quick else (70, 28)
    evals = 0
    mismatches, oracle_fail, samples = [], [], []
    nontrivial = set()
    hist = {}
    cfgs_seen = []
    for (sheps, workers, envkw) in configs_for(ctx.tier):
        r2 = rng.fork()
        # the sizes must be known for aiming: take them from the environment we set (defaults 1024 / 8)
        aim = dict(AC=int(envkw.get("QT_ARGCOPY_SIZE", 1024)), TL=int(envkw.get("QT_TASKLOCAL_SIZE", 8)))
        cases = (corpus_cases() if not envkw else []) + \
            [gen_case(r2, aim, sheps, True, quick) for _ in range(nstep)] + [gen_case(r2, aim, sheps, False, quick) for _ in range(nfree)]
        cfg, impl, model = run_config(ctx, exe, drv, sheps, workers, envkw, cases)
        if (cfg["AC"], cfg["TL"]) != (aim["AC"], aim["TL"]):
            mismatches.append(("config", dict(env=envkw, runtime=cfg, expected=aim)))
        cfgs_seen.append(dict(sheps=sheps, workers_per_shep=workers, **cfg))
        for case, il, ml in zip(cases, impl, model):
            cdesc = dict(config=dict(sheps=sheps, workers=workers, env=envkw), case=case)
            evals += sum(len(t["ops"]) for t in case["tasks"])
            d = compare(case, il, ml)
            if d:
                mismatches.append((d, dict(cdesc, impl=[x[:300] for x in il[:80]], model=[x[:300] for x in ml[:80]])))
            why = oracle(case, il, cfg, sheps)
            if why:
                oracle_fail.append((why, dict(cdesc, impl=[x[:300] for x in il[:80]])))
            hits = classify(case, cfg)
            for h in hits:
                hist[h] = hist.get(h, 0) + 1
            if hits & {"firstblob", "realloc", "id_null_redraw", "id_non_redraw"}:
                nontrivial.add(json.dumps(case, sort_keys=True))
            if len(samples) < 3 and "realloc" in hits and case["stepped"]:
                samples.append(dict(config=cdesc["config"], script=case_lines(case), impl=[x[:120] for x in il[:12]]))
    # ---- id race phase (M4): many tasks make their FIRST qthread_id() call at the same moment on >= 4 workers; all are
    # alive while their ids are compared (id_distinct / id_nonzero / id_stable on a really concurrent allocation; the
    # middle round crosses the 32-bit wrap so the two re-draw fetch-and-adds interleave with other tasks' draws)
    race = []
    ntask, rounds = (768, 10) if quick else (1024, 40)
    for (sheps, workers) in ([(8, 1), (2, 4)] if quick else [(8, 1), (2, 4), (4, 4), (16, 1)]):
        rc, out, err = core.run_lines(exe, ["C 7", "D %d %d" % (ntask, rounds), "Q"], timeout=1500, env=core.qenv(sheps, workers, stack=32768))
        line = next((l for l in out if l.startswith("D ")), None)
        want = "D %d %d 0 0 0" % (ntask, rounds)
        case = dict(config=dict(sheps=sheps, workers=workers, env={}), idrace=dict(tasks=ntask, rounds=rounds), impl=out[-3:], rc=rc)
        evals += ntask * rounds
        race.append(dict(sheps=sheps, workers=workers, result=line))
        if line != want:
            mismatches.append(("id race phase: impl `%s` model `%s`" % (line, want), case))
            if line is None:
                oracle_fail.append(("id race phase did not complete (rc=%s)" % rc, case))
            else:
                p = line.split()
                oracle_fail.append(("of %s x %s concurrently allocated ids of live tasks: %s duplicates, %s reserved values (0 / UINT_MAX), %s changed on the "
                                    "second call" % (p[1], p[2], p[3], p[4], p[5]), case))
    hist["idrace_rounds"] = rounds * len(race)
    ctx.cov.update(evaluations=evals, distinct_nontrivial=len(nontrivial), samples=samples, id_race=race,
                   rule="evaluations = task ops executed on the real runtime and compared with the model; non-trivial = distinct scripts that "
                        "leave the in-descriptor area (first blob / realloc) or draw an id at a 32-bit wrap position",
                   traces_validated_against_impl=evals, input_distribution=hist, configs=cfgs_seen,
                   correspondence_mismatches=len(mismatches))
    ctx.assumptions += ["malloc/realloc/mpool return blocks disjoint from all live blocks (C14 / libc)",
                        "op-atomic interleavings: get_tasklocal touches only the calling task's descriptor (checked by the overlap audits)",
                        "QT_TASKLOCAL_SIZE >= sizeof(void*) (smaller values make the blob pointer overhang the BIG descriptor's data area; see notes)"]
    ctx.notes.append("QT_TASKLOCAL_SIZE in 1..7 is accepted by the runtime; with an argument copy in the descriptor the blob pointer then "
                     "occupies data[AC..AC+8) while only AC+TL bytes are requested from the pool (absorbed by the pool's 16-byte rounding "
                     "unless AC+TL is within 8-TL of a multiple of 16).  Not exercised; Tasklocal theorem tl_slot_fits carries 8 <= TL.")
    verdict(ctx, pr, mismatches, oracle_fail)
    # ---- extension G: micro-step id allocation (every schedule) + descriptor life cycle, see _c09_micro.py ----
    _c09_micro.run_micro(ctx, quick)
    # ---- end of extension G ----


def verdict(ctx, pr, mismatches, oracle_fail):
    broken = bool(mismatches) or not pr["ok"]
    if not broken:
        for (w, c) in oracle_fail[:3]:
            ctx.violation("unlisted:" + " ".join(w.split()[3:6]), w, c)
        return
    what = ("correspondence Kernel/Tasklocal+Ident model vs qthread.c broken (%d cases): %s" % (len(mismatches), mismatches[0][0][:300])) \
        if mismatches else "theorems in %s no longer check" % pr["file"]
    if oracle_fail:
        w, c = oracle_fail[0]
        ctx.violation("broken+input", what + "; failing input: " + w,
                      {"failing_input": c, "reason": w, "first_mismatch": mismatches[0] if mismatches else None, "coq_log": pr["log"][-1500:]})
    else:
        ctx.violation("broken", what, {"theorem_or_correspondence": "impl != Kernel.Tasklocal/Ident" if mismatches else pr["file"],
                                       "first_mismatch": mismatches[0] if mismatches else None, "coq_log": pr["log"][-1500:]}, no_input=True)


def replay(ctx, path):
    j = json.load(open(path))
    r = j["replay"]
    if isinstance(r, dict) and r.get("micro_g"):          # a replay written by extension G
        return _c09_micro.replay(ctx, r)
    fi = r.get("failing_input") or (r.get("first_mismatch") or [None, None])[1] or r
    if not fi or "case" not in fi:
        print(json.dumps(j, indent=1)[:4000])
        return run(ctx)
    conf, case = fi["config"], fi["case"]
    pr = ctx.coq_properties("Properties/Properties_C09.v")
    ctx.coq_make(["theories/Kernel/TasklocalExtract.vo"])
    exe = ctx.link("c09_tasklocal", ["c09_tasklocal.c"], exclude=["qthread.c"])
    drv = ctx.model_driver("c09_driver")
    cfg, impl, model = run_config(ctx, exe, drv, conf["sheps"], conf["workers"], conf["env"], [case])
    print("# script:\n" + "\n".join(case_lines(case)))
    print("# implementation:\n" + "\n".join(x[:200] for x in impl[0]))
    print("# model:\n" + "\n".join(x[:200] for x in model[0]))
    d = compare(case, impl[0], model[0])
    why = oracle(case, impl[0], cfg, conf["sheps"])
    print("# compare: %s\n# oracle: %s" % (d, why))
    verdict(ctx, pr, [(d, dict(config=conf, case=case))] if d else [], [(why, dict(config=conf, case=case))] if why else [])
