"""C10 sinc (src/sincs/donecount.c).  Model: coq/theories/Sinc (micro-step), theorems in Properties_C10.v.

Correspondence: M3 in a live runtime -- every shared access of qt_sinc_submit / expect / wait / collate
(qthread_incr, readFF, empty, fill, memcpy of result, every call of the user's operator) is interposed in a
white-box TU; a controller grants one access at a time under an adaptive schedule; the extracted model runs the
same schedule with the placements (slot = shepherd*wps+worker) the implementation actually used, and must print
the same line after every access (who, which access, counter, ready, result, every slot, every participant's
position, values delivered by completed waits).  Several generations per sinc through qt_sinc_reset.
M4: free-running submitters/waiters with random yields and dynamic qt_sinc_expect, oracle only."""
import json
import time
from .. import core
from . import _c10_extra
from . import _gen

PREF = 1024
OPNAMES = ["add8", "max8", "xor8", "min8", "add64"]
ZERO_SIG = "zero-count-wait-delivers-uncollated-result"
RESET0_SIG = "reset-zero-on-incomplete-sinc-leaves-ready-empty"
HANGS = [0]


def ident(opk, size):
    return ("ff" if opk == 3 else "00") * size


def pyop(opk, a, b):
    if opk == 4:
        x = (int.from_bytes(a, "little") + int.from_bytes(b, "little")) & (2 ** 64 - 1)
        return x.to_bytes(8, "little")
    f = [lambda x, y: (x + y) & 255, max, lambda x, y: x ^ y, min][opk]
    return bytes(f(x, y) for x, y in zip(a, b))


def rand_val(rng, size, opk):
    k = rng.below(6)
    if k == 0:
        return "00" * size
    if k == 1:
        return "ff" * size
    return "".join("%02x" % rng.below(256) for _ in range(size))


def gen_sched(rng, n, length):
    kind = rng.weighted([("uniform", 5), ("low", 1), ("high", 1), ("streak", 5), ("laggard", 2)])
    L = rng.range(8, length)
    if kind == "uniform":
        return kind, [rng.below(840) for _ in range(L)]
    if kind == "low":
        return kind, [0]
    if kind == "high":
        return kind, [839]
    if kind == "laggard":
        lag = rng.below(n)
        out = []
        for _ in range(L):
            t = rng.below(n)
            if t == lag and n > 1 and rng.chance(9, 10):
                t = (t + 1 + rng.below(n - 1)) % n
            out.append((t + 1) * PREF + rng.below(840))
        return kind, out
    out = []
    while len(out) < L:
        t = rng.below(n)
        for _ in range(rng.range(1, 10)):
            out.append((t + 1) * PREF + rng.below(840))
    return kind, out


def gen_generation(rng, hd, size, opk, c0, flavour):
    """thread programs for one generation: list of op lists; ops are ('s',hex) ('n',) ('e',n) ('w',) ('v',)"""
    nthr = rng.range(1, 6)
    progs = [[] for _ in range(nthr)]

    def sub():
        return ("s", rand_val(rng, size, opk)) if hd and rng.chance(9, 10) else ("n",)
    share = [0] * nthr
    for _ in range(c0):
        share[rng.below(nthr)] += 1
    for t in range(nthr):
        body = [sub() for _ in range(share[t])]
        if share[t] >= 1 and rng.chance(1, 3):
            k = rng.range(0, 3)              # announce k more submissions while own share is outstanding (proviso holds)
            extra = [sub() for _ in range(k)]
            if rng.chance(1, 2):             # somebody else performs them (after this thread's expect: not enforced -> may race)
                body = [("e", k)] + body
                progs[rng.below(nthr)] += extra if flavour == "racy" else []
                if flavour != "racy":
                    body += extra
            else:
                body = [("e", k)] + rng.shuffle(body + extra)
        progs[t] += body
    if flavour == "under" and c0 > 0:        # one submission missing: waits never complete (model: deadlock)
        for t in range(nthr):
            if progs[t] and progs[t][-1][0] in "sn":
                progs[t].pop()
                break
    if flavour == "over":                    # one submission too many: counter wraps
        progs[rng.below(nthr)].append(sub())
    if flavour == "late-expect":             # expect issued by a thread that does not hold a share: may find the count at zero
        t = rng.below(nthr)
        progs[t] += [("e", rng.range(1, 2)), sub()]
    nw = rng.range(1, 3)
    for _ in range(nw):
        w = ("w",) if rng.chance(3, 4) else ("v",)
        if rng.chance(2, 3):
            progs[rng.below(nthr)].append(w)
        elif rng.chance(1, 2) and nthr < 8:
            progs.append([w] * rng.range(1, 2)); nthr += 1
        else:
            progs[rng.below(nthr)].insert(0, w)
    if not any(progs):
        progs[0].append(("w",))
    return progs


def gen_session(rng, small=False):
    hd = 0 if rng.chance(1, 5) else 1
    size = rng.choice([1, 2, 3, 4, 8, 8, 8, 16, 24, 64]) if hd else 0
    if small:
        size = min(size, 8)
    opk = rng.below(4) if hd else 0
    if hd and size == 8 and rng.chance(1, 2):
        opk = 4
    init = ident(opk, size) if rng.chance(9, 10) else rand_val(rng, size, opk)
    ngen = rng.weighted([(1, 5), (2, 4), (3, 2)])
    gens = []
    for g in range(ngen):
        c0 = rng.weighted([(0, 2), (1, 3), (2, 3), (3, 2), (5, 1), (8, 1)])
        flavour = rng.weighted([("ok", 12), ("racy", 3), ("under", 1), ("over", 1), ("late-expect", 2)])
        progs = gen_generation(rng, hd, size, opk, c0, flavour)
        nsteps = 12 * sum(len(p) for p in progs) + 16
        kind, sched = gen_sched(rng, len(progs), nsteps)
        gens.append(dict(c0=c0, flavour=flavour, progs=progs, sched=sched, sched_kind=kind))
    return dict(hd=hd, size=size, opk=opk, init=init, gens=gens)


def optok(o, slot=None):
    if o[0] == "s":
        return "s:%s" % o[1] + ("" if slot is None else ":%d" % slot)
    if o[0] == "n":
        return "n" + ("" if slot is None else ":0")
    if o[0] == "e":
        return "e:%d" % o[1]
    return o[0]


def impl_lines(sess):
    out = []
    for gi, g in enumerate(sess["gens"]):
        if gi == 0:
            out.append("S %d %d %d %s %d" % (sess["hd"], sess["size"], sess["opk"], sess["init"] or "-", g["c0"]))
        else:
            out.append("Z %d" % g["c0"])
        for p in g["progs"]:
            out.append("T " + " ".join(optok(o) for o in p))
        out.append("R " + " ".join(map(str, g["sched"])))
    out.append("D")
    return out


def split_impl(lines):
    """-> (create line fields, [per generation dict(I=, steps=[...], P=[(tid,slot,shep,worker)], end=, z=)])"""
    create = None
    gens = []
    cur = None
    for l in lines:
        if l.startswith("C "):
            create = l.split()
        elif l.startswith("Z "):
            if l.split()[1] == "0":
                break                       # previous generation left blocked participants: the sinc is abandoned
            cur = dict(z=l, I=None, steps=[], P=[], end=None)
            gens.append(cur)
        elif l.startswith("I "):
            if cur is None or cur["I"] is not None:
                cur = dict(z=None, I=None, steps=[], P=[], end=None)
                gens.append(cur)
            cur["I"] = l
        elif l.startswith("P "):
            cur["P"].append(tuple(map(int, l.split()[1:])))
        elif l.startswith("END") or l.startswith("TIMEOUT"):
            if cur is None:
                cur = dict(z=None, I=None, steps=[], P=[], end=None)
                gens.append(cur)
            cur["end"] = l
            cur = None if l.startswith("TIMEOUT") else cur
        elif l == "D":
            pass
        elif cur is not None:
            cur["steps"].append(l)
    return create, gens


def model_lines(sess, create, igens):
    """model input using the placements the implementation actually used"""
    out = []
    nsl = int(create[1]) * int(create[2])
    for gi, g in enumerate(sess["gens"]):
        if gi >= len(igens):
            break
        if gi == 0:
            out.append("S %d %d %d %s %d %d" % (sess["hd"], sess["size"], sess["opk"], sess["init"] or "00", nsl, g["c0"]))
        else:
            out.append("Z %d" % g["c0"])
        slots = {}
        for (tid, slot, shep, worker) in igens[gi]["P"]:
            slots.setdefault(tid, []).append(slot)
        for t, p in enumerate(g["progs"]):
            sl = list(slots.get(t, []))
            toks = []
            for o in p:
                if o[0] == "s":
                    toks.append(optok(o, sl.pop(0) if sl else 0))
                elif o[0] == "n":
                    toks.append("n:0")
                else:
                    toks.append(optok(o))
            out.append("T " + " ".join(toks))
        out.append("R " + " ".join(map(str, g["sched"])))
    return out


def oracle_generation(sess, g, ig, create, prev_done):
    """the property on the implementation's own trace of one generation.  Returns (reason, signature) or None"""
    nsheps, wps = int(create[1]), int(create[2])
    for (tid, slot, shep, worker) in ig["P"]:
        if not (0 <= shep < nsheps and 0 <= worker < wps and slot == shep * wps + worker):
            return ("submit of participant %d used slot %d although it ran on shepherd %d worker %d (of %dx%d)" % (tid, slot, shep, worker, nsheps, wps), None)
    c0 = g["c0"]
    opk, size = sess["opk"], sess["size"]
    isid = sess["hd"] and sess["init"] == ident(opk, size)
    counter = int(ig["I"].split()[1]) if ig["I"] else c0
    decs = adds = began = 0
    cur = {}                                          # tid -> accesses still owed by the submit call in progress
    vals = []
    ptr = {t: 0 for t in range(len(g["progs"]))}     # next op index per thread (to know submitted values)
    proviso = True
    for l in ig["steps"]:
        head, _, rest = l.partition(" | ")
        f = head.split()
        tid, kind, cnt = int(f[0]), f[1], int(f[2])
        if kind in ("Slot", "Dec"):
            # one submit call = the slot update (value-carrying submissions only) and the decrement of the counter, in
            # WHICHEVER order the code performs them: the submission has begun at the first of the two accesses, and from
            # then on its value belongs to "the submitted values" (a result delivered once the count reached zero must
            # contain it)
            owed = cur.get(tid)
            if not owed or kind not in owed:
                if began >= c0 + adds:
                    proviso = False
                began += 1
                p = g["progs"][tid]
                while ptr[tid] < len(p) and p[ptr[tid]][0] not in "sn":
                    ptr[tid] += 1
                op = p[ptr[tid]] if ptr[tid] < len(p) else ("n",)
                ptr[tid] += 1
                if op[0] == "s":
                    vals.append(bytes.fromhex(op[1]))
                    owed = {"Slot", "Dec"}
                else:
                    owed = {"Dec"}
                if kind not in owed:
                    owed = {kind}
            owed = set(owed) - {kind}
            cur[tid] = owed
            if kind == "Dec":
                decs += 1
        elif kind == "Add":
            if counter == 0:
                proviso = False
            adds += (cnt - counter) % (2 ** 64)
        counter = cnt
        if " ; W" in l and proviso:
            for w in l.split(" ; ")[1:]:
                who, _, val = w.partition("=")
                if decs != c0 + adds:
                    return ("wait of participant %s returned after %d submissions, %d expected (initial %d + expects %d, each issued while the count was non-zero)"
                            % (who[1:], decs, c0 + adds, c0, adds), None)
                if val != "-" and isid:
                    exp = bytes.fromhex(sess["init"])
                    for v in vals:
                        exp = pyop(opk, exp, v)
                    if val != exp.hex():
                        if c0 + adds == 0:
                            return ("wait on a sinc with zero expected submissions delivered %s, the reduction of no values is the initial value %s "
                                    "(regression of /repo 15fe3d8)" % (val, sess["init"]), None)
                        return ("wait of participant %s delivered %s, the %s-reduction of the %d submitted values is %s" % (who[1:], val, OPNAMES[opk], len(vals), exp.hex()), None)
    end = ig["end"] or "TIMEOUT"
    if end.startswith("TIMEOUT"):
        return ("participants never became quiescent (watchdog, reproduced with 2x the time)", None)
    if proviso and end.startswith("END deadlock") and ig["steps"]:
        last = ig["steps"][-1]
        if int(last.split()[2]) == 0 and " Blk" in last.partition(" | ")[2] and decs == c0 + adds:
            f0 = ig["I"].split() if ig["I"] else None
            if f0 and f0[1] == "0" and f0[2] == "0" and not prev_done:
                # the generation started with count 0 and ready empty: only qt_sinc_reset(s, 0) on an incomplete sinc
                # produces that state (the fill is commented out in the source); unspecified by the API text
                return ("qt_sinc_reset(s, 0) on an incomplete sinc left ready empty: waiters block although nothing is expected", RESET0_SIG)
            return ("all %d expected submissions arrived but a waiter is still blocked" % decs, None)
    return None


def _run_chunk(exe, sessions_lines, env):
    flat = [l for s in sessions_lines for l in s]
    rc, out, err = core.run_lines(exe, flat + ["Q"], timeout=int(env.get("VERIF_WATCHDOG", "20")) * 2 + 120, env=env)
    if not out or not out[0].startswith("H "):
        raise core.BuildError("c10 harness did not start: rc=%s %s" % (rc, err[-500:]))
    results, cur = [], []
    for l in out[1:]:
        cur.append(l)
        if l == "D" or l.startswith("FR") or l.startswith("TIMEOUT"):
            results.append(cur); cur = []
            if l.startswith("TIMEOUT"):
                return results
    if len(results) < len(sessions_lines) and (cur or rc != 0):
        results.append(cur + ["TIMEOUT rc=%s %s" % (rc, err.strip()[-200:])])
    return results


def run_impl(exe, sessions_lines, env, budget_s, notes, watchdog=20, chunk=10):
    t0 = time.time()
    results = [None] * len(sessions_lines)
    i = 0
    env = dict(env, VERIF_WATCHDOG=str(watchdog))
    while i < len(sessions_lines) and HANGS[0] < 1 and time.time() - t0 < budget_s:
        part = _run_chunk(exe, sessions_lines[i:i + chunk], env)
        for r in part:
            if r[-1].startswith("TIMEOUT"):
                again = _run_chunk(exe, [sessions_lines[i]], dict(env, VERIF_WATCHDOG=str(2 * watchdog)))
                if again and not again[0][-1].startswith("TIMEOUT"):
                    notes.append("session '%s' hit the %d s watchdog once and completed when re-run alone (loaded machine)" % (sessions_lines[i][0][:60], watchdog))
                    r = again[0]
                else:
                    HANGS[0] += 1
            results[i] = r
            i += 1
        if not part:
            results[i] = ["TIMEOUT no output"]
            i += 1
            HANGS[0] += 1
    return results


CORPUS = [
    # zero expected submissions, wait with target: must deliver the initial value (regression of the defect fixed by
    # /repo 15fe3d8: result buffer never written); then reset 2 and reuse, then reset 0: again the initial value
    dict(hd=1, size=4, opk=0, init="00000000", gens=[
        dict(c0=0, flavour="ok", progs=[[("w",)], [("v",)]], sched=[0], sched_kind="corpus"),
        dict(c0=2, flavour="ok", progs=[[("s", "01020304"), ("w",)], [("s", "10203040")], [("w",)]], sched=[839], sched_kind="corpus"),
        dict(c0=0, flavour="ok", progs=[[("w",)], [("w",)]], sched=[0], sched_kind="corpus")]),
    # expect-at-zero race: the collator has decremented to zero, an expect re-empties, then the collator fills
    dict(hd=1, size=1, opk=2, init="00", gens=[
        dict(c0=1, flavour="late-expect", progs=[[("s", "0f")], [("e", 1), ("s", "f0")], [("w",)]],
             sched=[1 * PREF, 1 * PREF, 2 * PREF, 2 * PREF, 1 * PREF, 1 * PREF, 1 * PREF, 1 * PREF, 3 * PREF, 3 * PREF, 2 * PREF], sched_kind="corpus")]),
    # void sinc, several waiters, dynamic expect
    dict(hd=0, size=0, opk=0, init="", gens=[
        dict(c0=2, flavour="ok", progs=[[("e", 2), ("n",), ("n",), ("n",)], [("n",), ("v",)], [("w",)], [("v",)]], sched=[3 * PREF, 4 * PREF, 0], sched_kind="corpus"),
        dict(c0=0, flavour="ok", progs=[[("v",)]], sched=[0], sched_kind="corpus")]),
    # 64-byte values, max, reset and reuse twice
    dict(hd=1, size=64, opk=1, init="00" * 64, gens=[
        dict(c0=3, flavour="ok", progs=[[("s", "11" * 64), ("w",)], [("s", "7f" * 32 + "01" * 32)], [("s", "00" * 64), ("w",)]], sched=[0], sched_kind="corpus"),
        dict(c0=1, flavour="ok", progs=[[("s", "05" * 64)], [("w",)]], sched=[2 * PREF], sched_kind="corpus")]),
    # over-submission: the counter wraps
    dict(hd=1, size=8, opk=4, init="00" * 8, gens=[
        dict(c0=1, flavour="over", progs=[[("s", "0100000000000000"), ("s", "0200000000000000")], [("w",)]], sched=[0], sched_kind="corpus")]),
]


def _hold_sessions():
    """directed schedules (always run, after the corpus): the LAST participant is granted exactly k accesses, then every
    other participant runs for as long as it can (schedule entry 0 = lowest-numbered runnable participant), then the held
    one finishes.  k ranges over every access of a submit call, so each window between two shared accesses of one
    submission is crossed by complete submissions, collation and waits of the others: the schedules under which a
    reordering of the accesses inside qt_sinc_submit / collate / expect delivers a wrong result."""
    out = []
    vals = ["0100000000000000", "0002000000000000", "0000030000000000"]
    for nsub in (2, 3):
        for k in range(0, 5):
            progs = [[("w",)]] + [[("s", vals[j])] for j in range(nsub)]
            n = len(progs)
            out.append(dict(hd=1, size=8, opk=4, init="00" * 8, gens=[
                dict(c0=nsub, flavour="ok", progs=progs, sched=[n * PREF] * k + [0] * 300, sched_kind="hold")]))
    # the same with a dynamic expect issued by the held participant before its own submission
    for k in range(0, 6):
        progs = [[("w",)], [("s", vals[0])], [("e", 1), ("s", vals[1]), ("s", vals[2])]]
        out.append(dict(hd=1, size=8, opk=4, init="00" * 8, gens=[
            dict(c0=2, flavour="ok", progs=progs, sched=[3 * PREF] * k + [0] * 300, sched_kind="hold")]))
    return out


CORPUS += _hold_sessions()


def run(ctx):
    rng = ctx.rng
    quick = ctx.tier == "quick"
    _gen.regen(ctx, ["Sinc"])      # Gen/Sinc.v regenerated from the source + Properties_Gen_C10.v (tools/ctrans.py)
    pr = ctx.coq_properties("Properties/Properties_C10.v")
    ok, log = ctx.coq_make(["theories/Sinc/Extract.vo"])
    if not ok:
        raise core.BuildError("Sinc/Extract.v does not compile:\n" + log[-2000:])
    exe = ctx.link("c10_sinc", ["c10_sinc.c"], exclude=["sincs/donecount.c"])
    drv = ctx.model_driver("c10_driver")
    if quick:
        configs = [((1, 1), 30, 6, 12), ((1, 4), 40, 8, 14), ((2, 2), 8, 6, 12), ((4, 1), 6, 6, 12)]
    else:
        configs = [((1, 1), 300, 40, 60), ((1, 4), 400, 40, 80), ((2, 2), 60, 30, 120), ((4, 1), 60, 30, 120),
                   ((3, 2), 40, 20, 100), ((2, 1), 60, 20, 60), ((1, 2), 200, 20, 60)]
    evals = 0
    nontrivial = set()
    samples = []
    hist = {}
    mismatches = []
    oracle_fail = []     # (signature or None, reason, case)
    steps_total = 0
    skipped = 0
    placements = set()
    for ((ns, nw), nsess, nfree, budget) in configs:
        r2 = rng.fork()
        small = ns > 1
        sessions = [s for s in CORPUS if not small or s["size"] <= 8]
        while len(sessions) < len(CORPUS) + nsess:
            sessions.append(gen_session(r2, small=small))
        slines = [impl_lines(s) for s in sessions]
        env = core.qenv(ns, nw, stack=65536, MALLOC_PERTURB_=165)
        res = run_impl(exe, slines, env, budget, ctx.notes, watchdog=20 if ns == 1 else 60)
        # ---- model on the same schedules with the observed placements
        minput = []
        parsed = []
        for sess, r in zip(sessions, res):
            if r is None:
                parsed.append(None)
                continue
            create, igens = split_impl(r)
            parsed.append((create, igens))
            if create is not None:
                minput += model_lines(sess, create, igens)
        rc2, mout, merr = core.run_lines(drv, minput, timeout=600)
        mgens = []
        cur = []
        for l in mout:
            cur.append(l)
            if l.startswith("END"):
                mgens.append(cur); cur = []
        mi = 0
        for si, (sess, pz) in enumerate(zip(sessions, parsed)):
            if pz is None:
                skipped += 1
                continue
            create, igens = pz
            case0 = {"config": [ns, nw], "sinc": dict(hasdata=sess["hd"], size=sess["size"], op=OPNAMES[sess["opk"]], init=sess["init"]),
                     "input_lines": slines[si]}
            if create is None:
                mismatches.append(dict(case0, what="no create line", impl=res[si][-3:]))
                oracle_fail.append((None, "harness produced no output for the session (crash or hang in qt_sinc_create)", case0))
                continue
            for gi, ig in enumerate(igens):
                g = sess["gens"][gi]
                evals += 1
                hist[g["flavour"]] = hist.get(g["flavour"], 0) + 1
                for pl in ig["P"]:
                    placements.add((ns, nw, pl[1]))
                if mi >= len(mgens):
                    raise core.BuildError("c10 model driver output too short: %s" % merr[-300:])
                mg = mgens[mi]; mi += 1
                impl = [ig["I"]] + ig["steps"] + [ig["end"]]
                steps_total += len(ig["steps"])
                case = dict(case0, generation=gi, initial_count=g["c0"], flavour=g["flavour"], schedule_kind=g["sched_kind"],
                            programs=[" ".join(optok(o) for o in p) for p in g["progs"]])
                nsub = sum(1 for p in g["progs"] for o in p if o[0] in "sn")
                if nsub >= 2 and len(g["progs"]) >= 2:
                    nontrivial.add((ns, nw, si, gi, tuple(g["sched"][:20])))
                if impl != mg:
                    d = core.first_diff(impl, mg)
                    mismatches.append(dict(case, step=d, impl=impl[max(0, d - 2):d + 2], model=mg[max(0, d - 2):d + 2]))
                prev_ready = False
                if gi > 0:
                    pl = (igens[gi - 1]["steps"] or [igens[gi - 1]["I"]])[-1].split()
                    prev_ready = (pl[3] if pl[0] != "I" else pl[2]) == "1"
                why = oracle_generation(sess, g, ig, create, prev_ready)
                if why:
                    oracle_fail.append((why[1], why[0], dict(case, impl_tail=impl[-5:])))
                if len(samples) < 3 and len(ig["steps"]) > 20 and g["sched_kind"] != "corpus":
                    samples.append({"config": [ns, nw], "sinc": case0["sinc"], "initial_count": g["c0"], "programs": case["programs"],
                                    "schedule_kind": g["sched_kind"], "impl_first_steps": impl[:8], "impl_last": impl[-2:], "steps": len(ig["steps"])})
                if (ig["end"] or "").startswith("TIMEOUT"):
                    break
        # ---- free-running
        free = []
        for _ in range(nfree):
            size = r2.choice([0, 1, 4, 8, 8, 16, 64])
            opk = 0 if size == 0 else (4 if size == 8 and r2.chance(1, 2) else r2.below(4))
            free.append((r2.range(1, 24), r2.range(0, 4), size, opk, r2.below(1 << 30), r2.choice([0, 2, 3, 5]), r2.below(2)))
        flines = [["F %d %d %d %d %d %d %d" % f] for f in free]
        fres = run_impl(exe, flines, env, budget, ctx.notes, watchdog=30 if ns == 1 else 60, chunk=40)
        for f, r, fl in zip(free, fres, flines):
            if r is None:
                skipped += 1
                continue
            evals += 1
            hist["free"] = hist.get("free", 0) + 1
            case = {"config": [ns, nw], "free_running": True, "submitters": f[0], "waiters": f[1], "size": f[2], "op": OPNAMES[f[3]],
                    "seed": f[4], "yield_1_in": f[5], "dynamic_expect": f[6], "input_lines": fl}
            if f[0] >= 2:
                nontrivial.add((ns, nw) + f)
            last = r[-1]
            if last.startswith("FR"):
                p = list(map(int, last.split()[1:]))
                if p[0] or (p[2] & 1):
                    oracle_fail.append((None, "a wait returned while only %d of %d expected submissions had begun" % (p[3], p[4]), case))
                elif p[1] or (p[2] & 2):
                    oracle_fail.append((None, "a wait delivered a value different from the reduction of the %d submitted values" % p[4], case))
                elif p[5] != 0:
                    mismatches.append(dict(case, impl=last, model="counter 0 after completion"))
            else:
                oracle_fail.append((None, "free-running sinc never completed (watchdog): all expected submissions were issued", dict(case, impl=r[-2:])))
                mismatches.append(dict(case, impl=r[-2:], model="completes"))
    ctx.cov.update(evaluations=evals, distinct_nontrivial=len(nontrivial), samples=samples,
                   rule="sessions = sinc (void or 1..64-byte values; bytewise add/max/xor/min, uint64 add) x 1-3 generations joined by qt_sinc_reset x "
                        "1-8 participants with submit/expect/wait programs (balanced, racy expect, under-/over-submission, expect at zero) x adaptive "
                        "schedules, compared after every shared access; free-running runs with dynamic expect; non-trivial = >=2 submissions from >=2 participants",
                   traces_validated_against_impl=evals, micro_steps_compared=steps_total, input_distribution=hist,
                   configs=[list(c[0]) for c in configs], cases_not_run_budget=skipped, distinct_slots_used=len(placements),
                   correspondence_mismatches=len(mismatches),
                   refuted_on_current_tree=["wait_without_proviso_refuted", "reset_zero_incomplete_differs"])
    ctx.assumptions += ["sequential consistency of counter/ready/slot accesses (fences are DESIGN.md section 8)",
                        "the user's operator does not yield: a slot update is atomic with respect to the tasks of the same worker",
                        "FEB words behave as C01/C02 state (readFF blocks on empty, fill releases every waiter)"]
    broken = bool(mismatches) or not pr["ok"]
    known = {}
    unknown = []
    for (sig, w, c) in oracle_fail:
        if sig is not None:
            known.setdefault(sig, (w, c))
        else:
            unknown.append((w, c))
    if not broken:
        for sig, (w, c) in known.items():
            if core.match_known("C10", sig) is not None:
                ctx.violation(sig, w, c)
            else:
                ctx.notes.append("note (%s, not counted): %s -- %s; input: %s" % (
                    "unspecified by the API text, DESIGN.md C10" if sig == RESET0_SIG else "not listed in known_findings.json",
                    sig, w, " / ".join(x[:80] for x in c["input_lines"][:6])))
        for (w, c) in unknown[:3]:
            ctx.violation("unlisted:" + w.split()[0], w, c)
    else:
        what = ("correspondence Sinc.Model / sincs/donecount.c broken (%d cases)" % len(mismatches)) if mismatches else \
               "theorems in %s no longer check" % pr["file"]
        if unknown:
            w, c = unknown[0]
            ctx.violation("broken+input", what + "; failing input: " + w,
                          {"failing_input": c, "reason": w, "first_mismatch": mismatches[0] if mismatches else None, "coq_log": pr["log"][-1500:]})
        else:
            ctx.violation("broken", what, {"theorem_or_correspondence": "impl != Sinc.Model (micro-step replay)" if mismatches else pr["file"],
                                           "first_mismatch": mismatches[0] if mismatches else None, "coq_log": pr["log"][-1500:],
                                           "known_class_failures": {s: w for s, (w, c) in known.items()}}, no_input=True)
    _c10_extra.run_extra(ctx, quick)     # extension S: resize / reset at any moment / fini / destroy / init / tmpdata


def replay(ctx, path):
    j = json.load(open(path))
    print(json.dumps(j, indent=1)[:3000])
    rep = j.get("replay", {})
    case = rep.get("failing_input") or rep.get("first_mismatch") or rep
    lines = case.get("input_lines") if isinstance(case, dict) else None
    cfg = case.get("config", [1, 1]) if isinstance(case, dict) else [1, 1]
    if not lines:
        return run(ctx)
    if isinstance(case, dict) and case.get("harness") == "c10_extra":
        return _c10_extra.replay_extra(ctx, case)
    exe = ctx.link("c10_sinc", ["c10_sinc.c"], exclude=["sincs/donecount.c"])
    res = run_impl(exe, [lines], core.qenv(cfg[0], cfg[1], stack=65536, MALLOC_PERTURB_=165), 600, ctx.notes, watchdog=60)
    print("\n".join(res[0][-15:]))
    bad = any(l.startswith("TIMEOUT") for l in res[0])
    if lines[0].startswith("F"):
        p = list(map(int, res[0][-1].split()[1:])) if res[0][-1].startswith("FR") else None
        bad = bad or not p or p[0] or p[1] or p[2]
    if bad:
        ctx.violation("replay", "replayed input still fails", case)
    else:
        print("# replay ran; compare the printed trace with the reason recorded in the replay file")
