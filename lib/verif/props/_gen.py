"""Regeneration tie (DESIGN.md 4.5): Gallina definitions of the small pure C kernels are regenerated from the working
tree by tools/ctrans.py on every run, and coq/theories/Gen/Tie_<Unit>.v proves the hand-written model functions (the
ones the property theorems are about) equal to them.  This is the second, static tie next to the dynamic one.

    regen(ctx, ["Qarray"])     # near the start of run(ctx) of the property that owns the kernels

  1. tools/ctrans.py regenerates coq/theories/Gen/<Unit>.v from core.REPO (written only if changed);
  2. ctx.coq_properties("Properties/Properties_Gen_<group>.v") rebuilds the tie theorems (obligations are counted);
  3. if the translator refuses the source (construct outside the stated subset) or a tie proof no longer checks: an M1
     differential run of the OLD model function (evaluated by coqc, vm_compute) against the C kernel compiled from the
     working tree (harness/c/gen_<unit>.c, white-box include) on a few thousand boundary inputs; a differing input is
     reported as the failing input, otherwise the violation says no-failing-input-found.
The generated files live in the shared Coq tree: everything runs under one lock; a run against a scratch tree
(VERIF_REPO, mutation testing) puts the files of /repo back before it releases the lock.
"""
import fcntl
import importlib.util
import os
import re
import time

from .. import core

_GROUP = {"Qarray": "C17", "Qloop": "C12", "Int60": "C03", "Hazard": "C15", "Mpool": "C14", "Dict": "C16", "Ident": "C09", "Swsr": "C15", "Hash": "C16", "Hashmap": "Hashmap", "Sinc": "C10", "Gcd": "C14"}
_done = {}


def _ctrans():
    p = os.path.join(core.VERIF, "tools", "ctrans.py")
    spec = importlib.util.spec_from_file_location("ctrans", p)
    m = importlib.util.module_from_spec(spec)
    spec.loader.exec_module(m)
    return m


# ---------------------------------------------------------------------------------------------- model side (Coq)
def coq_eval(ctx, imports, expr, timeout=300):
    """value printed by `Eval vm_compute in expr` (a list of Z / N): list of ints"""
    p = os.path.join(ctx.scratch, "gen_eval_%d.v" % int(time.time() * 1000))
    with open(p, "w") as f:
        f.write("From Coq Require Import List ZArith NArith Bool.\nImport ListNotations.\n%s\n"
                "Eval vm_compute in (%s).\n" % (imports, expr))
    rc, out, err = core.sh(["coqc", "-Q", "theories", "QV", "-o", p + "o", p], cwd=core.COQ, timeout=timeout)
    if rc != 0:
        return None, (out + err)[-1500:]
    body = out.split("=", 1)[1] if "=" in out else out
    body = body.rsplit(":", 1)[0]
    return [int(x) for x in re.findall(r"-?\d+", body)], ""


def _boundary(rng, n, lo=0, hi=2 ** 20):
    xs = []
    for _ in range(n):
        c = rng.below(6)
        if c == 0:
            xs.append(rng.range(lo, min(hi, lo + 8)))
        elif c == 1:
            xs.append(2 ** rng.range(0, 20) + rng.range(-1, 1))
        else:
            xs.append(rng.range(lo, hi))
    return [max(lo, min(hi, x)) for x in xs]


# ---------------------------------------------------------------------------------------------- per unit differentials
def diff_qarray(ctx, rng):
    exe = ctx.link("gen_qarray", ["gen_qarray.c"], exclude=["ds/qarray.c"])
    E, S, L = [], [], []
    for _ in range(1500):
        ss = rng.choice([1, 2, 3, 5, 8, 64, 511, 512, 4096, rng.range(1, 5000)])
        us = rng.choice([1, 2, 3, 4, 7, 8, 9, 16, 24, 100, 4096, rng.range(1, 9000)])
        sb = ss * us + rng.choice([0, 0, 1, 2, 3, 4, 5, 8, 100])
        count = rng.range(1, 20 * ss + 3)
        k = rng.below(count // ss + 2)
        i = min(count, max(0, k * ss + rng.choice([0, 1, -1, rng.below(ss)])))
        E.append((count, ss, sb, us, i))
    for _ in range(1500):
        kind = rng.below(3)
        ns = rng.range(1, 9)
        sps = rng.range(1, 6)
        ex = rng.below(ns)
        seg = rng.range(0, (sps + 1) * ns + 3)
        if kind == 1:
            seg = min(seg, sps * ns + ex - 1) if sps * ns + ex > 0 else 0    # segments that exist
        S.append((kind, sps, ex, rng.below(ns), ns, max(0, seg)))
    for _ in range(800):
        ss = rng.range(1, 600)
        us = rng.choice([1, 2, 3, 4, 5, 6, 7, 8, 9, 12, 100, rng.range(1, 300)])
        p = ss * us
        sb = ((p + 3) & ~3) + 2 + rng.choice([0, 0, 1, 2, 6, 100])
        L.append((ss, us, sb))
    lines = ["E %d %d %d %d %d" % t for t in E] + ["S %d %d %d %d %d %d" % t for t in S] + ["L %d %d %d" % t for t in L]
    rc, out, err = core.run_lines(exe, lines + ["Q"], timeout=120)
    if rc != 0 or len(out) != len(lines):
        k = min(len(out), len(lines) - 1)
        return {"kernel": "src/ds/qarray.c", "input": lines[k], "c_result": "the C kernel crashed (rc=%s)" % rc, "model_result": "defined"}
    imp = "From QV Require Import Qarray.Model."
    kinds = {0: "FIXED_HASH", 1: "FIXED_FIELDS", 2: "ALL_SAME"}
    me, msg = coq_eval(ctx, imp, "map (fun t => match t with (c, ss, sb, us, i) => elem_off (mkdesc c us sb ss FIXED_HASH 0 0 0) i end) [%s]%%N" %
                       "; ".join("(%d, %d, %d, %d, %d)" % t for t in E))
    ms, msg2 = coq_eval(ctx, imp, "[%s]%%N" % "; ".join(
        "shepof_seg %d (fun _ => 0) (mkdesc 0 1 1 1 %s %d %d %d) %d" % (t[4], kinds[t[0]], t[1], t[2], t[3], t[5]) for t in S))
    ml, msg3 = coq_eval(ctx, imp, "map (fun t => match t with (ss, us, sb) => shep_slot (mkdesc 0 us sb ss DIST 0 0 0) end) [%s]%%N" %
                        "; ".join("(%d, %d, %d)" % t for t in L))
    if me is None or ms is None or ml is None:
        return {"error": "model evaluation failed: " + (msg or msg2 or msg3)}
    model = ["e %d" % v for v in me] + ["s %d" % v for v in ms] + ["l %d" % v for v in ml]
    for ln, c, m in zip(lines, out, model):
        if c != m:
            what = {"E": "qarray_elem_nomigrate: count segment_size segment_bytes unit_size index; result = offset from base_ptr",
                    "S": "qarray_internal_shepof_segidx: dist_type segs_per_shep extras dist_shep num_shepherds seg",
                    "L": "qarray_internal_segment_shep: segment_size unit_size segment_bytes; result = offset of the id slot"}[ln[0]]
            return {"kernel": what, "input": ln, "c_result": c, "model_result": m}
    return None


def diff_qloop(ctx, rng):
    exe = ctx.link("gen_qloop", ["gen_qloop.c"], exclude=["qloop.c"])
    cases = []
    for _ in range(2500):
        nw = rng.choice([1, 2, 3, 4, 5, 7, 8, 16, rng.range(1, 40)])
        start = rng.choice([0, 0, 1, 5, rng.range(0, 1000)])
        k = rng.range(0, 4)
        n = max(1, k * nw + rng.choice([0, 1, -1, rng.below(nw), rng.below(3 * nw + 2)]))
        cases.append((rng.choice("BA"), start, start + n, nw))
    lines = ["%s %d %d %d" % c for c in cases]
    rc, out, err = core.run_lines(exe, lines + ["Q"], timeout=120)
    if rc != 0 or len(out) != len(lines):
        k = min(len(out), len(lines) - 1)
        return {"kernel": "src/qloop.c split loop", "input": lines[k], "c_result": "the C code crashed / hung (rc=%s)" % rc, "model_result": "defined"}
    vals, msg = coq_eval(ctx, "From QV Require Import Loops.Model.",
                         "map (fun t => match t with (a, b, w) => (maxworkers a b w, split a b w) end) [%s]%%Z" %
                         "; ".join("(%d, %d, %d)" % c[1:] for c in cases), timeout=600)
    if vals is None:
        return {"error": "model evaluation failed: " + msg}
    # queue-loop cursors: one worker alone (chunked / guided / factored), claim chain against Loops.Model.run_alone
    gc = []
    for _ in range(400):
        fl = rng.below(3)
        a = rng.choice([0, 0, 1, 7, rng.range(0, 50)])
        n = rng.choice([0, 1, 2, 3, 5, 8, 17, 64, 100, rng.range(0, 160)])
        sh = rng.choice([1, 2, 3, 4, 7, 8, 16])
        ch = rng.choice([1, 1, 2, 3, 5, 8, 50])
        nw = rng.choice([1, 2, 2, 4, 8])
        gc.append((fl, a, a + n, sh, ch, nw))
    glines = ["G %d %d %d %d %d %d" % c for c in gc]
    rcg, gout, gerr = core.run_lines(exe, glines + ["Q"], timeout=120)
    if rcg != 0 or len(gout) != len(glines):
        k = min(len(gout), len(glines) - 1)
        return {"kernel": "qqloop_get_iterations_*", "input": glines[k], "c_result": "the C code crashed / hung (rc=%s)" % rcg, "model_result": "defined"}
    FL = ["CHUNK", "GUIDED", "FACTORED"]
    gv, gmsg = coq_eval(ctx, "From QV Require Import Loops.Model.",
                        "map (fun s => (Z.of_nat (length (s_out s)), map snd (s_out s))) [%s]" % "; ".join(
                            "run_alone (mkP %s %d %d %d %d 1) 5000 (init (mkP %s %d %d %d %d 1) %d [0] 1)" % (
                                FL[c[0]], c[2], c[5], c[3], c[4], FL[c[0]], c[2], c[5], c[3], c[4], c[1]) for c in gc) + "%Z", timeout=600)
    if gv is None:
        return {"error": "model evaluation failed: " + gmsg}
    pos = 0
    for ln, o in zip(glines, gout):
        n = gv[pos]
        prs = gv[pos + 1: pos + 1 + 2 * n]
        pos += 1 + 2 * n
        m = "g %d" % n + "".join(" %d:%d" % (prs[2 * i], prs[2 * i + 1]) for i in range(n))
        if o != m:
            return {"kernel": "qqloop_get_iterations_%s, one worker alone until it returns 0: flavour start stop activesheps chunksize "
                              "num_workers; result = the ranges handed out" % FL[int(ln.split()[1])].lower(), "input": ln, "c_result": o[:400], "model_result": m[:400]}
    pos = 0
    for ln, c, o in zip(lines, cases, out):
        mw = vals[pos]
        prs = vals[pos + 1: pos + 1 + 2 * mw]
        pos += 1 + 2 * mw
        m = "%s %d" % (c[0].lower(), mw) + "".join(" %d:%d" % (prs[2 * i], prs[2 * i + 1]) for i in range(mw))
        if o != m:
            return {"kernel": "%s: start stop num_workers; result = maxworkers and the startat:stopat of every wrapper" %
                    ("qt_loop_balance_inner" if c[0] == "B" else "qt_loopaccum_balance_inner"), "input": ln, "c_result": o, "model_result": m}
    return None


def diff_int60(ctx, rng):
    exe = ctx.link("gen_int60", ["gen_int60.c"], exclude=["syncvar.c"], cflags=["-DGEN_MAIN"])
    M = 2 ** 64
    xs = [0, 1, 2 ** 59 - 1, 2 ** 59, 2 ** 59 + 1, 2 ** 60 - 1, 2 ** 60, 2 ** 60 + 1, 2 ** 63, M - 1, M - 2 ** 59, M - 2 ** 60]
    xs += [(2 ** rng.range(0, 63) + rng.range(-2, 2)) % M for _ in range(300)] + [rng.next() for _ in range(700)]
    cs = [(rng.choice(xs), rng.choice([0, 1, 2, 3, 4, 5, 6, 7, 8, 15, rng.next() % M])) for _ in range(600)]
    lines = ["A %d" % x for x in xs] + ["B %d" % (x % 2 ** 60) for x in xs] + ["C %d %d" % c for c in cs]
    rc, out, err = core.run_lines(exe, lines + ["Q"], timeout=120)
    if rc != 0 or len(out) != len(lines):
        return {"error": "gen_int60 harness failed rc=%s" % rc}
    imp = "From QV Require Import Syncvar.Defs Syncvar.Model Gen.CInt."
    a, m1 = coq_eval(ctx, imp, "map INT64TOINT60 [%s]%%N" % "; ".join(str(x) for x in xs))
    b, m2 = coq_eval(ctx, imp, "map (fun x => wrapS64 (Z.of_N (INT60TOINT64 x))) [%s]%%N" % "; ".join(str(x % 2 ** 60) for x in xs))
    c, m3 = coq_eval(ctx, imp, "map (fun t => build_unlocked (fst t) (snd t)) [%s]%%N" % "; ".join("(%d, %d)" % t for t in cs))
    if a is None or b is None or c is None:
        return {"error": "model evaluation failed: " + (m1 or m2 or m3)}
    model = ["a %d" % v for v in a] + ["b %d" % v for v in b] + ["c %d" % v for v in c]
    names = {"A": "INT64TOINT60(x)", "B": "INT60TOINT64(x)", "C": "BUILD_UNLOCKED_SYNCVAR(data, state)"}
    for ln, o, m in zip(lines, out, model):
        if o != m:
            return {"kernel": names[ln[0]], "input": ln, "c_result": o, "model_result": m}
    return None


def diff_hazard(ctx, rng):
    exe = ctx.link("gen_hazard", ["gen_hazard.c"], exclude=["hazardptrs.c"])
    cases = []
    for _ in range(1500):
        n = rng.choice([0, 1, 2, 3, 4, 5, 7, 8, 9, 16, rng.range(0, 40)])
        vs = sorted(set(rng.range(1, 200) * 8 for _ in range(n)))
        n = len(vs)
        f = rng.choice(vs) if vs and rng.chance(2, 3) else rng.range(0, 1700)
        if vs and rng.chance(1, 6):
            f = rng.choice([vs[0], vs[-1], vs[0] - 1, vs[-1] + 1])
        cases.append((f, vs))
    lines = ["S %d %d %s" % (f, len(vs), " ".join(map(str, vs))) for f, vs in cases]
    rc, out, err = core.run_lines(exe, lines + ["Q"], timeout=120)
    if rc != 0 or len(out) != len(lines):
        k = min(len(out), len(lines) - 1)
        return {"kernel": "binary_search (src/hazardptrs.c)", "input": lines[k], "c_result": "crashed / hung (rc=%s)" % rc, "model_result": "defined"}
    vals, msg = coq_eval(ctx, "From QV Require Import CQueues.Hazard.",
                         "map (fun t => match binary_search (snd t) (fst t) (N.of_nat (length (snd t))) with Some true => 1 | Some false => 0 | None => 2 end) [%s]%%N" %
                         "; ".join("(%d, [%s])" % (f, "; ".join(map(str, vs))) for f, vs in cases), timeout=600)
    if vals is None:
        return {"error": "model evaluation failed: " + msg}
    for ln, o, m in zip(lines, out, vals):
        if o != "s %d" % m:
            return {"kernel": "binary_search(list, findme, len): findme len list...", "input": ln, "c_result": o, "model_result": "s %d" % m}
    return None


def diff_mpool(ctx, rng):
    exe = ctx.link("gen_mpool", ["gen_mpool.c"], exclude=["mpool.c"])
    cases = []
    for _ in range(400):
        it = rng.choice([1, 8, 15, 16, 17, 24, 40, 63, 64, 65, 100, 128, 1000, 4095, 4096, 4097, 5000, 8192, rng.range(1, 20000)])
        al = rng.choice([0, 0, 8, 16, 17, 32, 64, 100, 128, 4096, rng.range(0, 300)])
        cases.append((it, al))
    lines = ["C %d %d" % c for c in cases]
    rc, out, err = core.run_lines(exe, lines + ["Q"], timeout=300, env=core.qenv(1, 1, stack=65536))
    if not out or not out[0].startswith("p "):
        return {"error": "gen_mpool harness did not start (rc=%s): %s" % (rc, err[-300:])}
    ps = int(out[0].split()[1])
    out = out[1:]
    if rc != 0 or len(out) != len(lines):
        k = min(len(out), len(lines) - 1)
        return {"kernel": "qt_mpool_create_aligned", "input": lines[k], "c_result": "crashed / hung (rc=%s)" % rc, "model_result": "defined"}
    vals, msg = coq_eval(ctx, "From QV Require Import Mpool.Model.",
                         "snd (fold_left (fun st c => match create_sizes %d 18446744073709551615 (fst st) (fst c) (snd c) with "
                         "Some s => (s_max s, snd st ++ [s_item s; s_align s; s_alloc s; s_ipa s]) | None => (fst st, snd st ++ [0; 0; 0; 0]) end) "
                         "[%s] (0, []))%%N" % (ps, "; ".join("(%d, %d)" % c for c in cases)), timeout=600)
    if vals is None:
        return {"error": "model evaluation failed: " + msg}
    for k, (ln, o) in enumerate(zip(lines, out)):
        m = "c %d %d %d %d" % tuple(vals[4 * k: 4 * k + 4])
        if o != m:
            return {"kernel": "qt_mpool_create_aligned(item_size, alignment) after the %d creations before it (static max_alloc_size); "
                              "result = item_size alignment alloc_size items_per_alloc; pagesize %d" % (k, ps),
                    "input": ln, "c_result": o, "model_result": m}
    return None


def diff_dict(ctx, rng):
    exe = ctx.link("gen_dict", ["gen_dict.c"], exclude=["ds/dictionary/dictionary_shavit.c"], cflags=["-DGEN_MAIN"])
    M = 2 ** 64
    xs = list(range(0, 256)) + [2 ** k for k in range(64)] + [2 ** k - 1 for k in range(1, 65)] + [rng.next() for _ in range(300)] + \
         [2 ** a + 2 ** rng.below(a) for a in range(1, 64) for _ in range(4)] + [(2 ** a + 2 ** rng.below(a) + 2 ** rng.below(a)) for a in range(2, 64)]
    bs = [(rng.next(), rng.choice([1, 2, 4, 8, 16, 1024, 3, 2 ** rng.range(0, 20)])) for _ in range(300)]
    ws = [(cap, n) for cap in (2, 4, 8, 16, 64, 512) for n in (1, 9, 10, 11, 21, 45, 100, 300)]
    lines = ["R %d" % x for x in xs] + ["K %d" % (x % 2 ** 63) for x in xs] + ["D %d" % x for x in xs] + ["P %d" % x for x in xs] + \
            ["B %d %d" % b for b in bs]
    wlines = ["W %d %d" % w for w in ws]
    rcw, wout, werr = core.run_lines(exe, wlines + ["Q"], timeout=300, env=core.qenv(1, 1, stack=65536))
    if rcw != 0 or len(wout) != len(wlines):
        k = min(len(wout), len(wlines) - 1)
        return {"kernel": "growth rule of qt_hash_put", "input": wlines[k], "c_result": "crashed / hung (rc=%s)" % rcw, "model_result": "defined"}
    wv, mw = coq_eval(ctx, "From QV Require Import Dict.Model.",
                      "(flat_map (fun t => snd (fold_left (fun st _ => let d := bump (fst st) in (d, snd st ++ [d_size d])) (seq 0 (snd t)) (create (fst t), [])))"
                      " [%s])" % "; ".join("(%d%%N, %d%%nat)" % w for w in ws), timeout=600)
    if wv is None:
        return {"error": "model evaluation failed: " + mw}
    pos = 0
    for ln, o, (cap, n) in zip(wlines, wout, ws):
        m = "w" + "".join(" %d" % v for v in wv[pos: pos + n])
        pos += n
        if o != m:
            return {"kernel": "qt_hash_put growth rule: hard_max_buckets n; result = h->size after each of n puts of distinct keys",
                    "input": ln, "c_result": o[:300], "model_result": m[:300]}
    rc, out, err = core.run_lines(exe, lines + ["Q"], timeout=120)
    if rc != 0 or len(out) != len(lines):
        return {"error": "gen_dict harness failed rc=%s %s" % (rc, err[-200:])}
    imp = "From QV Require Import Dict.Model."
    L = "; ".join(str(x) for x in xs)
    r, m1 = coq_eval(ctx, imp, "map reverse_byte [%s]%%N" % L)
    k, m2 = coq_eval(ctx, imp, "map so_regularkey [%s]%%N" % "; ".join(str(x % 2 ** 63) for x in xs))
    d, m3 = coq_eval(ctx, imp, "map so_dummykey [%s]%%N" % L)
    g, m4 = coq_eval(ctx, imp, "map get_parent [%s]%%N" % L)
    b, m5 = coq_eval(ctx, imp, "(flat_map (fun t => [N.land (fst t) (N.ones 63); N.land (fst t) (N.ones 63) mod snd t]) [%s])%%N" %
                     "; ".join("(%d, %d)" % t for t in bs))
    if None in (r, k, d, g, b):
        return {"error": "model evaluation failed: " + (m1 or m2 or m3 or m4 or m5)}
    model = ["r %d" % v for v in r] + ["k %d" % v for v in k] + ["d %d" % v for v in d] + ["p %d" % v for v in g] + \
            ["b %d %d" % (b[2 * i], b[2 * i + 1]) for i in range(len(bs))]
    names = {"R": "REVERSE_BYTE(x)", "K": "so_regularkey(key)", "D": "so_dummykey(key)", "P": "GET_PARENT(bucket)",
             "B": "HASH_KEY + bucket index of qt_hash_put: hash size; result = lkey bucket"}
    for ln, o, m in zip(lines, out, model):
        if o != m:
            return {"kernel": names[ln[0]], "input": ln, "c_result": o, "model_result": m}
    return None


def diff_ident(ctx, rng):
    exe = ctx.link("gen_ident", ["gen_ident.c"], exclude=["qthread.c"])
    M32, M64 = 2 ** 32, 2 ** 64
    cs = [0, 1, 2, 7, M32 - 2, M32 - 1, M32, M32 + 1, 2 * M32 - 1, 2 * M32, 5 * M32 - 1, 5 * M32, M64 - 2, M64 - 1,
          M64 - M32 - 1, M64 - M32] + [rng.range(0, 3) * M32 + rng.choice([-2, -1, 0, 1, 5, 1000]) for _ in range(60)]
    cs = [c % M64 for c in cs]
    lines = ["I %d" % c for c in cs]
    rc, out, err = core.run_lines(exe, lines + ["Q"], timeout=120, env=core.qenv(1, 1, stack=65536))
    if rc != 0 or len(out) != len(lines):
        return {"error": "gen_ident harness failed rc=%s %s" % (rc, err[-200:])}
    v, msg = coq_eval(ctx, "From QV Require Import Kernel.Ident.",
                      "(flat_map (fun c => match qthread_id 0 c with (i, f, c1) => [i; fst (fst (qthread_id f c1)); c1] end) [%s])%%N" %
                      "; ".join(str(c) for c in cs))
    if v is None:
        return {"error": "model evaluation failed: " + msg}
    for k, (ln, o) in enumerate(zip(lines, out)):
        m = "i %d %d %d" % tuple(v[3 * k: 3 * k + 3])
        if o != m:
            return {"kernel": "qthread_id() of a fresh task after qlib->max_thread_id was set to the input; result = id, id of a second call, "
                              "counter afterwards", "input": ln, "c_result": o, "model_result": m}
    return None


def diff_swsr(ctx, rng):
    exe = ctx.link("gen_swsr", ["gen_swsr.c"], exclude=["ds/qswsrqueue.c"])
    es = [0, 1, 7, 8, 9, 63, 64, 65, 127, 128, 129, 1000, 4096, 4097, 2 ** 32 - 64, 2 ** 32 - 63, 2 ** 32, 2 ** 33] + \
         [rng.range(0, 3000) for _ in range(150)]
    xs = []
    for _ in range(200):
        e = rng.choice([1, 8, 64, 65, 100, 128, 200])
        size = max(64, -(-max(e, 8) // 64) * 64)
        n = rng.choice([0, 1, 2, size - 2, size - 1, size, size + 3, rng.below(size + 5)])
        k = rng.below(min(n, size - 1) + 2)
        xs.append((e, n, k))
    lines = ["C %d" % e for e in es] + ["X %d %d %d" % x for x in xs]
    rc, out, err = core.run_lines(exe, lines + ["Q"], timeout=120)
    if rc != 0 or len(out) != len(lines):
        k = min(len(out), len(lines) - 1)
        return {"kernel": "qswsrqueue", "input": lines[k], "c_result": "crashed (rc=%s)" % rc, "model_result": "defined"}
    imp = "From QV Require Import CQueues.Swsr."
    cv, m1 = coq_eval(ctx, imp, "(map (fun e => match create_size 64 8 e with Some s => s | None => 0 end) [%s])%%N" % "; ".join(map(str, es)))
    # sequential ring arithmetic from the model's index formulas: tail advances by (t+1) mod size while (t+1) mod size <> head
    xv, m2 = coq_eval(ctx, imp,
                      "(flat_map (fun t => match t with (e, n, k) => match create_size 64 8 e with None => [0; 0; 0; 0; 0] | Some s => "
                      "let enq := fun st => let nt := (fst st + 1) mod s in if nt =? 0 then (fst st, 1) else (nt, 0) in "
                      "let a := N.iter n enq (0, 0) in "
                      "let deq := fun h => if h =? fst a then h else (h + 1) mod s in "
                      "let h := N.iter k deq 0 in [s; fst a; h; (if h =? fst a then 1 else 0); snd a] end end) [%s])%%N" %
                      "; ".join("(%d, %d, %d)" % x for x in xs))
    if cv is None or xv is None:
        return {"error": "model evaluation failed: " + (m1 or m2)}
    for ln, o, v in zip(lines[:len(es)], out[:len(es)], cv):
        m = "c NULL" if v == 0 else "c %d" % v
        if o != m and o != "c skipped":
            return {"kernel": "qswsrqueue_create(elements): q->size", "input": ln, "c_result": o, "model_result": m}
    for i, (ln, o) in enumerate(zip(lines[len(es):], out[len(es):])):
        m = "x %d %d %d %d %d" % tuple(xv[5 * i: 5 * i + 5])
        if o != m:
            return {"kernel": "fresh qswsrqueue of `elements`, n enqueues then k dequeues: size tail head empty rc-of-last-enqueue",
                    "input": ln, "c_result": o, "model_result": m}
    return None


def diff_hash(ctx, rng):
    exe = ctx.link("gen_hash", ["gen_hash.c"], exclude=["hashmap.c"])
    M = 2 ** 64
    ks = [0, 1, 2, 255, 256, 2 ** 31 - 1, 2 ** 31, 2 ** 31 + 1, 2 ** 32 - 1, 2 ** 32, 2 ** 63, M - 1] + \
         [(b << (8 * j)) for j in range(8) for b in (1, 127, 128, 255)] + [rng.next() for _ in range(500)] + \
         [rng.next() | (1 << 31) for _ in range(50)] + [rng.next() & ~(1 << 31) & (M - 1) for _ in range(50)]
    lines = ["H %d" % k for k in ks]
    rc, out, err = core.run_lines(exe, lines + ["Q"], timeout=120)
    if rc != 0 or len(out) != len(lines):
        return {"error": "gen_hash harness failed rc=%s %s" % (rc, err[-200:])}
    v, m1 = coq_eval(ctx, "From QV Require Import Dict.Model.", "map hash64 [%s]%%N" % "; ".join(map(str, ks)))
    w, m2 = coq_eval(ctx, "From QV Require Hashmap.Model.", "map Hashmap.Model.qt_hash64 [%s]%%N" % "; ".join(map(str, ks)))
    if v is None or w is None:
        return {"error": "model evaluation failed: " + (m1 or m2)}
    for ln, o, a, b in zip(lines, out, v, w):
        if o != "h %d" % a or o != "h %d" % b:
            return {"kernel": "qt_hash64(key)", "input": ln, "c_result": o, "model_result": "h %d (Dict.Model) / h %d (Hashmap.Model)" % (a, b)}
    return None


def diff_hashmap(ctx, rng):
    exe = ctx.link("gen_hash", ["gen_hash.c"], exclude=["hashmap.c"])
    ps_ = [0, 1, 2, 3, 4, 5, 7, 8, 9, 100, 512, 513, 1000, 1024, 1025, 2 ** 20, 2 ** 20 + 1, 2 ** 40 - 1, 2 ** 40, 2 ** 62 + 1, 2 ** 63] + \
          [2 ** rng.range(1, 40) + rng.range(-2, 2) for _ in range(100)]
    cs = []
    for _ in range(200):
        ps = rng.choice([64, 128, 256, 1024, 4096, 8192])
        bs = rng.choice([1, 2, 4, 8])
        me = 2 * ps // 16
        e = rng.choice([1, me - 1, me, me + 1, 100, 2 * me, 3 * me, 3 * me + 1, rng.range(1, 5000), 2 ** rng.range(3, 14) + rng.range(-1, 1)])
        cs.append((max(1, e), ps, bs))
    lines = ["P %d" % k for k in ps_] + ["C %d %d %d" % c for c in cs]
    rc, out, err = core.run_lines(exe, lines + ["Q"], timeout=120)
    if rc != 0 or len(out) != len(lines):
        k = min(len(out), len(lines) - 1)
        return {"kernel": "src/hashmap.c sizes", "input": lines[k], "c_result": "crashed / hung (rc=%s)" % rc, "model_result": "defined"}
    imp = "From QV Require Hashmap.Model."
    pv, m1 = coq_eval(ctx, imp, "map Hashmap.Model.encompassing_power_of_two [%s]%%N" % "; ".join(map(str, ps_)))
    cv, m2 = coq_eval(ctx, imp, "(flat_map (fun c => match c with (e, ps, bs) => let t := Hashmap.Model.create_raw bs (2 * ps / 16) e in "
                                "[Hashmap.Model.nent t; Hashmap.Model.mask t] end) [%s])%%N" % "; ".join("(%d, %d, %d)" % c for c in cs))
    if pv is None or cv is None:
        return {"error": "model evaluation failed: " + (m1 or m2)}
    model = ["p %d" % x for x in pv] + ["c %d %d" % (cv[2 * i], cv[2 * i + 1]) for i in range(len(cs))]
    for ln, o, m in zip(lines, out, model):
        if o != m:
            return {"kernel": "encompassing_power_of_two(k)" if ln[0] == "P" else "qt_hash_internal_create: entries pagesize bucketsize; result = num_entries mask",
                    "input": ln, "c_result": o, "model_result": m}
    return None


def diff_sinc(ctx, rng):
    exe = ctx.link("gen_sinc", ["gen_sinc.c"], exclude=["sincs/donecount.c"])
    gs, ss = [], []
    for _ in range(300):
        sh = rng.choice([1, 2, 3, 4, 7])
        wps = rng.choice([1, 2, 3, 4, 5])
        cl = rng.choice([16, 32, 64, 128])
        sz = rng.choice([1, 2, 7, 8, 9, 15, 16, 17, 24, 31, 32, 33, 63, 64, 65, 100, 128, 200, cl // wps if cl // wps else 1, cl // wps + 1])
        gs.append((sh, wps, cl, sz))
        ss.append((sh, wps, cl, sz, rng.below(sh), rng.below(wps)))
    lines = ["G %d %d %d %d" % g for g in gs] + ["S %d %d %d %d %d %d" % x for x in ss]
    rc, out, err = core.run_lines(exe, lines + ["Q"], timeout=120, env=core.qenv(1, 1, stack=65536))
    if rc != 0 or len(out) != len(lines):
        k = min(len(out), len(lines) - 1)
        return {"kernel": "donecount.c offsets", "input": lines[k], "c_result": "crashed / hung (rc=%s) %s" % (rc, err[-150:]), "model_result": "defined"}
    imp = "From QV Require Import Sinc.Extra."
    gv, m1 = coq_eval(ctx, imp, "map (fun t => match t with (w, z, c) => part_size w z c end) [%s]%%nat" % "; ".join("(%d, %d, %d)" % (g[1], g[3], g[2]) for g in gs))
    sv, m2 = coq_eval(ctx, imp, "map (fun t => match t with (w, z, c, s, k) => byte_off w z c s k end) [%s]%%nat" %
                      "; ".join("(%d, %d, %d, %d, %d)" % (x[1], x[3], x[2], x[4], x[5]) for x in ss))
    if gv is None or sv is None:
        return {"error": "model evaluation failed: " + (m1 or m2)}
    model = ["g %d" % v for v in gv] + ["s %d %d" % (v, v) for v in sv]
    for ln, o, m in zip(lines, out, model):
        if o != m:
            return {"kernel": "qt_sinc_init: sheps wps cacheline sizeof_value; result = sizeof_shep_value_part" if ln[0] == "G" else
                    "qt_sinc_submit / qt_sinc_tmpdata: sheps wps cacheline sizeof_value shepherd worker; result = byte offset of the slot updated / returned",
                    "input": ln, "c_result": o, "model_result": m}
    return None


def diff_gcd(ctx, rng):
    exe = ctx.link("gen_gcd", ["gen_gcd.c"])
    ps = [(0, 0), (0, 5), (5, 0), (1, 1), (1, 7), (7, 1), (6, 4), (4, 6), (48, 4096), (4096, 48), (4096, 4096), (17, 13), (2 ** 31, 2 ** 31 - 1),
          (2 ** 32 - 1, 2 ** 32 - 1), (2 ** 20 * 3, 2 ** 21 * 5), (832040, 514229), (12200160415121876738 % 2 ** 63, 7540113804746346429)]
    for _ in range(400):
        g = rng.choice([1, 2, 3, 8, 16, 4096, rng.range(1, 1000)])
        a = g * rng.range(0, 2 ** rng.range(1, 20))
        b = g * rng.range(0, 2 ** rng.range(1, 20))
        ps.append((a, b))
    ps = [(a, b) for a, b in ps]
    lines = ["G %d %d" % p for p in ps]
    rc, out, err = core.run_lines(exe, lines + ["Q"], timeout=120)
    if rc != 0 or len(out) != len(lines):
        k = min(len(out), len(lines) - 1)
        return {"kernel": "qt_gcd / qt_lcm", "input": lines[k], "c_result": "crashed / hung (rc=%s)" % rc, "model_result": "defined"}
    v, msg = coq_eval(ctx, "From QV Require Mpool.Model.",
                      "(flat_map (fun t => [N.gcd (fst t) (snd t); Mpool.Model.qt_lcm (fst t) (snd t) mod 18446744073709551616]) [%s])%%N" %
                      "; ".join("(%d, %d)" % p for p in ps))
    if v is None:
        return {"error": "model evaluation failed: " + msg}
    for i, (ln, o) in enumerate(zip(lines, out)):
        a, b = ps[i]
        m = "g %d %d" % (v[2 * i], v[2 * i + 1])
        if a * b >= 2 ** 64:
            m = "g %d" % v[2 * i]
            o = " ".join(o.split()[:2])       # the C product overflows: only the gcd is compared
        if o != m:
            return {"kernel": "qt_gcd(a, b) qt_lcm(a, b)", "input": ln, "c_result": o, "model_result": m}
    return None


DIFF = {"Gcd": diff_gcd, "Sinc": diff_sinc, "Hash": diff_hash, "Hashmap": diff_hashmap, "Swsr": diff_swsr, "Ident": diff_ident, "Dict": diff_dict, "Qarray": diff_qarray, "Qloop": diff_qloop, "Int60": diff_int60, "Hazard": diff_hazard, "Mpool": diff_mpool}


# ---------------------------------------------------------------------------------------------- entry point
def regen(ctx, names, group=None):
    """regenerate Gen/<Unit>.v for the units in `names` from core.REPO and rebuild their tie theorems"""
    GROUP = dict(_GROUP)
    if group is not None:
        for nm in names:
            GROUP[nm] = group
    key = (id(ctx), tuple(names), group)
    if key in _done:
        return _done[key]
    t0 = time.time()
    ct = _ctrans()
    groups = []
    for nm in names:
        g = GROUP[nm]
        if g not in groups:
            groups.append(g)
    foreign = os.path.realpath(core.REPO) != "/repo"
    res = {"ok": True, "units": {}, "props": []}
    os.makedirs(os.path.join(core.COQ, "theories", "Gen"), exist_ok=True)
    with open(os.path.join(core.COQ, "theories", "Gen", ".gen.lock"), "w") as lk:
        fcntl.flock(lk, fcntl.LOCK_EX)
        try:
            failed = []
            for nm in names:
                try:
                    changed, path = ct.regenerate(nm, core.REPO)
                    res["units"][nm] = "regenerated (changed)" if changed else "regenerated (identical)"
                except ct.CTransError as e:
                    res["units"][nm] = "FAILED: %s" % e
                    failed.append((nm, str(e)))
            logs = []
            for g in groups:
                rel = "Properties/Properties_Gen_%s.v" % g
                if not os.path.exists(os.path.join(core.COQ, "theories", rel)):
                    continue
                if failed and any(GROUP[nm] == g for nm, _ in failed):
                    # the definitions could not be regenerated: the tie theorems of this group are not established
                    src = open(os.path.join(core.COQ, "theories", rel)).read()
                    n = len(re.findall(r"^\s*Theorem\s", src, re.M))
                    ctx.obligations += n
                    ctx.coq_failed.append(rel + " (regeneration failed)")
                    res["props"].append({"file": rel, "ok": False})
                    continue
                pr = ctx.coq_properties(rel, timeout=600)
                res["props"].append({"file": rel, "ok": pr["ok"], "theorems": len(pr["theorems"])})
                if not pr["ok"]:
                    logs.append((rel, pr["log"]))
            if failed or logs:
                res["ok"] = False
                found = None
                derr = None
                clean = True          # every unit whose tie is broken was re-tied by a clean differential run
                for nm in names:
                    broken = any(nm == f for f, _ in failed) or any(GROUP[nm] in rel for rel, _ in logs)
                    if broken and nm not in DIFF:
                        clean = False
                    if broken and nm in DIFF:
                        try:
                            d = DIFF[nm](ctx, ctx.rng.fork())
                        except core.BuildError as e:
                            d = {"error": "the M1 harness of the kernel does not build: %s" % str(e)[-600:]}
                        if d and "error" not in d:
                            found = (nm, d)
                            break
                        if d:
                            derr = d["error"]
                            clean = False
                what = ("regeneration tie broken: " +
                        "; ".join(["tools/ctrans.py cannot translate unit %s (%s)" % (nm, e[:300]) for nm, e in failed] +
                                  ["%s no longer checks against the definitions regenerated from the source" % rel for rel, _ in logs]))
                rep = {"theorem_or_correspondence": [rel for rel, _ in logs] + ["ctrans " + nm for nm, _ in failed],
                       "coq_log": [l[-1500:] for _, l in logs], "translator_errors": [e for _, e in failed]}
                if found:
                    nm, d = found
                    ctx.violation("gen-tie+input", what + "; the model function and the C kernel differ on: %s (C: %s, model: %s)" % (
                        d["input"], d["c_result"], d["model_result"]), dict(rep, failing_input=d))
                elif clean and not os.environ.get("VERIF_STRICT_GEN"):
                    # The STATIC tie (regenerated definition = model function, proved) could not be re-established, but the
                    # DYNAMIC tie of the same kernels holds: the hand-written model function the theorems are about and the C
                    # kernel compiled from the working tree agree on every boundary input of the differential run.  The model
                    # is therefore still tied to the source by a checked correspondence (the brief's second way); a rewrite of
                    # the kernel that keeps its behaviour (renamed locals, `/ 2` as `>> 1`, if/else as ?:) is not reported.
                    # The tie theorems are then not counted as obligations of this run.  VERIF_STRICT_GEN=1 restores the alarm.
                    for rel, _ in logs:
                        while rel in ctx.coq_failed:
                            ctx.coq_failed.remove(rel)
                    for rel in [r for r in ctx.coq_failed if r.endswith("(regeneration failed)")]:
                        ctx.coq_failed.remove(rel)
                    for pr_ in res["props"]:
                        if not pr_["ok"]:
                            n_ = pr_.get("theorems")
                            if n_ is None:
                                src_ = open(os.path.join(core.COQ, "theories", pr_["file"])).read()
                                n_ = len(re.findall(r"^\s*Theorem\s", src_, re.M))
                            ctx.obligations -= n_
                    res["fallback"] = ("static tie not re-established (%s); the model functions and the C kernels agree on every input of "
                                       "the M1 differential run: the correspondence tie is in force, nothing reported" % what)
                    ctx.notes.append("regeneration tie: " + res["fallback"])
                else:
                    if derr:
                        rep["differential_error"] = derr
                    ctx.violation("gen-tie", what, rep, no_input=True)
        finally:
            if foreign:
                # mutation run: leave the shared Coq tree as the registered repository defines it
                tgt = []
                for nm in names:
                    try:
                        ct.regenerate(nm, "/repo")
                    except Exception:
                        pass
                for g in groups:
                    rel = "theories/Properties/Properties_Gen_%s.vo" % g
                    if os.path.exists(os.path.join(core.COQ, rel[:-1])):
                        tgt.append(rel)
                if tgt:
                    ctx.coq_make(tgt, timeout=900)
    res["wall_s"] = round(time.time() - t0, 2)
    ctx.cov["regeneration_tie"] = res
    ctx.cov.setdefault("regeneration_ties", []).append(res)      # a check may call regen more than once (C03: Int60, then the hashmap)
    ctx.notes.append("regeneration tie: %s; %s (%.1f s)" % (
        ", ".join("%s %s" % kv for kv in res["units"].items()),
        ", ".join("%s %s" % (p["file"], "ok" if p["ok"] else "BROKEN") for p in res["props"]), res["wall_s"]))
    _done[key] = res
    return res
