"""C11 barrier (src/barrier/feb.c).  Model: coq/theories/Barrier (micro-step), theorems in Properties_C11.v.

Correspondence: M3 in a live runtime -- every shared access of qt_barrier_enter (readFF/incr/empty/fill) is
interposed in a white-box TU; a controller grants one access at a time following an adaptive schedule; the
extracted model executes the same schedule and must print the same line after every access (who moved, which
access, gate states, blockers, every participant's position, and the arrival counters sampled at each return).
M4: free-running episodes with random yields, oracle only."""
import json
from .. import core
from . import _c11_life

PREF = 1024


def gen_sched(rng, n, e):
    """adaptive schedule r_k: q selects among enabled threads; (tid+1)*1024+q prefers tid while it is enabled"""
    kind = rng.weighted([("uniform", 5), ("low", 1), ("high", 1), ("streak", 5), ("laggard", 2), ("rr", 1)])
    L = rng.range(16, 40 * n * e + 16)
    if kind == "uniform":
        return kind, [rng.below(840) for _ in range(L)]
    if kind == "low":
        return kind, [0]
    if kind == "high":
        return kind, [839]
    if kind == "rr":
        return kind, [(k % n + 1) * PREF for k in range(n)]
    if kind == "laggard":
        # one participant is starved as long as anybody else can move (it always arrives last / leaves last)
        lag = rng.below(n)
        out = []
        for _ in range(L):
            t = rng.below(n)
            if t == lag and n > 1 and rng.chance(9, 10):
                t = (t + 1 + rng.below(n - 1)) % n
            out.append((t + 1) * PREF + rng.below(840))
        return kind, out
    out = []
    while len(out) < L:
        t = rng.below(n)
        for _ in range(rng.range(1, 14)):
            out.append((t + 1) * PREF + rng.below(840))
    return kind, out


def oracle_baton(lines):
    """the property on the implementation's own trace"""
    if not lines:
        return "no output"
    for l in lines:
        if " R " in l:
            k, m = map(int, l.split(" R ")[1].split()[:2])
            if m < k:
                return "participant %s returned from its enter no. %d while some participant had made only %d calls" % (l.split()[0], k, m)
    last = lines[-1]
    if last.startswith("TIMEOUT"):
        return "participants never became quiescent (watchdog, reproduced with 2x the time)"
    if not last.startswith("END done"):
        return "barrier stuck: %s (no participant can move, not all returned)" % last
    return None


def _run_chunk(exe, cases, env):
    """one harness process over `cases`; returns list of per-case line lists (shorter than cases if it died)"""
    rc, out, err = core.run_lines(exe, cases + ["Q"], timeout=int(env.get("VERIF_WATCHDOG", "20")) * 2 + 120, env=env)
    if not out or not out[0].startswith("H "):
        raise core.BuildError("harness did not start: rc=%s %s" % (rc, err[-500:]))
    results, cur = [], []
    for l in out[1:]:
        cur.append(l)
        if l.startswith(("END", "FR", "TIMEOUT")):
            results.append(cur); cur = []
            if l.startswith("TIMEOUT"):
                return results
    if len(results) < len(cases) and (cur or rc != 0):
        results.append(cur + ["TIMEOUT rc=%s %s" % (rc, err.strip()[-200:])])
    return results


HANGS = [0]      # confirmed hangs in this check run: after the first one no further cases are started


def run_impl(exe, cases, env, budget_s, notes, watchdog=20, chunk=12, max_hangs=1):
    """Run the cases in chunks until the wall-clock budget is used up (cases not run -> None).
    A case that hits the watchdog is run once more, alone, with a 2x watchdog: only a hang that reproduces counts
    (the machine is shared; a slow run is recorded in the notes, never dropped silently)."""
    import time
    t0 = time.time()
    results = [None] * len(cases)
    i = 0
    hangs = HANGS[0]
    env = dict(env, VERIF_WATCHDOG=str(watchdog))
    while i < len(cases) and hangs < max_hangs and time.time() - t0 < budget_s:
        part = _run_chunk(exe, cases[i:i + chunk], env)
        for r in part:
            if r[-1].startswith("TIMEOUT"):
                again = _run_chunk(exe, [cases[i]], dict(env, VERIF_WATCHDOG=str(2 * watchdog)))
                if again and not again[0][-1].startswith("TIMEOUT"):
                    notes.append("case '%s' hit the %d s watchdog once and completed when re-run alone (loaded machine)" % (cases[i][:60], watchdog))
                    r = again[0]
                else:
                    hangs += 1
                    HANGS[0] += 1
            results[i] = r
            i += 1
        if not part:
            results[i] = ["TIMEOUT no output"]
            i += 1
            hangs += 1
            HANGS[0] += 1
    return results


def run(ctx):
    rng = ctx.rng
    quick = ctx.tier == "quick"
    pr = ctx.coq_properties("Properties/Properties_C11.v")
    ok, log = ctx.coq_make(["theories/Barrier/Extract.vo"])
    if not ok:
        raise core.BuildError("Barrier/Extract.v does not compile:\n" + log[-2000:])
    exe = ctx.link("c11_barrier", ["c11_barrier.c"], exclude=["barrier/feb.c"])
    drv = ctx.model_driver("c11_driver")
    # multi-shepherd configurations are slow on a loaded machine (idle workers sched_yield in the steal loop), so
    # they get fewer and smaller baton cases; every configuration has a wall-clock budget (cases not run are counted)
    if quick:
        configs = [((1, 1), 44, 8, 12), ((1, 4), 36, 8, 12), ((2, 2), 8, 6, 12), ((4, 1), 8, 6, 12)]
    else:
        configs = [((1, 1), 400, 40, 60), ((1, 4), 300, 40, 60), ((2, 2), 60, 30, 120), ((4, 1), 60, 30, 120),
                   ((3, 2), 40, 20, 100), ((8, 1), 40, 20, 100), ((2, 1), 60, 20, 60)]
    corpus = [  # boundary cases, always first
        (1, 1, [0]), (1, 5, [0]), (2, 1, [0]), (2, 3, [839]), (3, 2, [0]), (8, 5, [0]), (8, 5, [839]),
        (2, 3, [2 * PREF]), (3, 3, [1 * PREF, 1 * PREF, 1 * PREF, 2 * PREF, 3 * PREF]), (5, 2, [k * 7 % 840 for k in range(97)]),
    ]
    evals = 0
    nontrivial = set()
    samples = []
    hist = {}
    mismatches = []
    oracle_fail = []
    steps_total = 0
    skipped = 0
    for ((ns, nw), nbaton, nfree, budget) in configs:
        r2 = rng.fork()
        small = ns > 1
        cor = [c for c in corpus if not small or c[0] * c[1] <= 9]
        cases = list(cor)
        kinds = ["corpus"] * len(cor)
        while len(cases) < len(cor) + nbaton:
            n = r2.weighted([(1, 1), (2, 3), (3, 3), (4, 2), (5, 2), (6, 1), (7, 1), (8, 2)])
            e = r2.range(1, 5)
            if small and quick:
                n, e = min(n, 5), min(e, 3)
            kind, sched = gen_sched(r2, n, e)
            cases.append((n, e, sched))
            kinds.append(kind)
        lines = ["C %d %d %d %s" % (n, n, e, " ".join(map(str, s))) for (n, e, s) in cases]
        free = [(r2.range(1, 8), r2.range(1, 5), r2.below(1 << 30), r2.choice([0, 2, 3, 5])) for _ in range(nfree)]
        flines = ["F %d %d %d %d" % f for f in free]
        env = core.qenv(ns, nw, stack=65536)
        res = run_impl(exe, lines, env, budget, ctx.notes, watchdog=20 if ns == 1 else 60)
        res += run_impl(exe, flines, env, budget, ctx.notes, watchdog=30 if ns == 1 else 60, chunk=40)
        skipped += sum(1 for r in res if r is None)
        rc2, mout, merr = core.run_lines(drv, lines, timeout=600)
        # split model output per case
        mres = []
        cur = []
        for l in mout:
            cur.append(l)
            if l.startswith("END"):
                mres.append(cur); cur = []
        if len(mres) != len(lines):
            raise core.BuildError("c11 model driver produced %d cases for %d inputs: %s" % (len(mres), len(lines), merr[-300:]))
        for ci, ((n, e, sched), kind) in enumerate(zip(cases, kinds)):
            impl = res[ci]
            model = mres[ci]
            if impl is None:
                continue
            evals += 1
            steps_total += len(impl)
            hist[kind] = hist.get(kind, 0) + 1
            case = {"config": [ns, nw], "participants": n, "episodes": e, "schedule_kind": kind,
                    "schedule": sched if len(sched) <= 64 else sched[:64] + ["...(%d)" % len(sched)], "input_line": lines[ci][:4000]}
            if n >= 2 and e >= 2:
                nontrivial.add((ns, nw, n, e, tuple(sched)))
            if impl != model:
                d = core.first_diff(impl, model)
                mismatches.append(dict(case, step=d, impl=impl[max(0, d - 2):d + 2] if d is not None else None,
                                       model=model[max(0, d - 2):d + 2] if d is not None else None))
            why = oracle_baton(impl)
            if why:
                oracle_fail.append((why, dict(case, impl_tail=impl[-6:])))
            if len(samples) < 3 and n >= 3 and e >= 2 and kind != "corpus":
                samples.append({"config": [ns, nw], "participants": n, "episodes": e, "schedule_kind": kind,
                                "schedule_prefix": sched[:12], "impl_first_steps": impl[:10], "impl_last_steps": impl[-3:], "steps": len(impl)})
        for fi, f in enumerate(free):
            impl = res[len(lines) + fi]
            if impl is None:
                continue
            evals += 1
            hist["free"] = hist.get("free", 0) + 1
            case = {"config": [ns, nw], "free_running": True, "participants": f[0], "episodes": f[1], "seed": f[2], "yield_1_in": f[3],
                    "input_line": flines[fi]}
            if f[0] >= 2 and f[1] >= 2:
                nontrivial.add((ns, nw) + f)
            last = impl[-1] if impl else "TIMEOUT"
            if last.startswith("FR"):
                p = list(map(int, last.split()[1:]))
                if p[0] != 0:
                    oracle_fail.append(("participant %d returned from enter no. %d while some participant had made only %d calls" % (p[1], p[2], p[3]), case))
                elif p[4] != 0 or p[5] != 0:
                    oracle_fail.append(("after the run %d participants short of episodes, blockers=%d" % (p[4], p[5]), case))
                    mismatches.append(dict(case, impl=last, model="FR 0 . . . 0 0"))
            else:
                oracle_fail.append(("free-running participants never all returned (watchdog, reproduced with 2x the time): model terminates (barrier_terminates)", dict(case, impl=impl[-3:])))
                mismatches.append(dict(case, impl=impl[-3:], model="all participants return"))
    ctx.cov.update(evaluations=evals, distinct_nontrivial=len(nontrivial), samples=samples,
                   rule="baton cases: N in 1..8 participants x 1..5 episodes x adaptive schedules (uniform / lowest-first / highest-first / "
                        "streaks of one participant / one starved participant / round-robin) on every configuration, compared after every "
                        "shared access; free-running cases with random yields, oracle only; non-trivial = N>=2 and episodes>=2 (re-entry possible)",
                   traces_validated_against_impl=evals, micro_steps_compared=steps_total, input_distribution=hist,
                   configs=[list(c[0]) for c in configs], cases_not_run_budget=skipped,
                   correspondence_mismatches=len(mismatches))
    ctx.assumptions += ["sequential consistency of the gate/blockers accesses (fences are DESIGN.md section 8)",
                        "FEB words behave as C01/C02 state: readFF blocks on empty, fill releases every waiter (observed in the replay, proved elsewhere)"]
    broken = bool(mismatches) or not pr["ok"]
    if not broken:
        for (w, c) in oracle_fail[:3]:
            ctx.violation("unlisted:" + w.split()[0], w, c)
    else:
        what = ("correspondence Barrier.Model / barrier/feb.c broken (%d cases)" % len(mismatches)) if mismatches else \
               "theorems in %s no longer check" % pr["file"]
        if oracle_fail:
            w, c = oracle_fail[0]
            ctx.violation("broken+input", what + "; failing input: " + w,
                          {"failing_input": c, "reason": w, "first_mismatch": mismatches[0] if mismatches else None, "coq_log": pr["log"][-1500:]})
        else:
            ctx.violation("broken", what, {"theorem_or_correspondence": "impl != Barrier.Model (micro-step replay)" if mismatches else pr["file"],
                                           "first_mismatch": mismatches[0] if mismatches else None, "coq_log": pr["log"][-1500:]}, no_input=True)
    # extension S: create / resize / destroy / global wrappers interleaved with enter (Barrier/Lifecycle.v, Properties_C11_life.v)
    _c11_life.run_life(ctx, quick)


def replay(ctx, path):
    j = json.load(open(path))
    print(json.dumps(j, indent=1)[:3000])
    rep = j.get("replay", {})
    case = rep.get("failing_input") or rep.get("first_mismatch") or rep
    line = case.get("input_line") if isinstance(case, dict) else None
    cfg = case.get("config", [1, 1]) if isinstance(case, dict) else [1, 1]
    if not line:
        return run(ctx)
    if line.startswith("L") or (line.startswith("F") and "|" in line):
        return _c11_life.replay_life(ctx, case)
    exe = ctx.link("c11_barrier", ["c11_barrier.c"], exclude=["barrier/feb.c"])
    res = run_impl(exe, [line], core.qenv(cfg[0], cfg[1], stack=65536), 600, ctx.notes, watchdog=60)
    print("\n".join(res[0][-12:]))
    if line.startswith("C"):
        why = oracle_baton(res[0])
        drv = ctx.model_driver("c11_driver")
        rc, mout, _ = core.run_lines(drv, [line])
        if mout != res[0]:
            d = core.first_diff(res[0], mout)
            print("# differs from the model at step %s: impl %s / model %s" % (d, res[0][d:d + 1], mout[d:d + 1]))
    else:
        last = res[0][-1]
        p = list(map(int, last.split()[1:])) if last.startswith("FR") else None
        why = None if (p and p[0] == 0 and p[4] == 0 and p[5] == 0) else "free run: " + last
    if why:
        ctx.violation("replay", why, case)
