"""C16 qt_dictionary (split-ordered list).  Model: coq/theories/Dict.
M1: op scripts on one task inside a live runtime, real code vs extracted model, exact (return values, size, count,
the whole list with so_keys, the initialised buckets, iteration order).
M4 (search only): concurrent histories with schedule points at the CAS steps / user callbacks, per-key
linearizability against the map specification."""
import json
import os
from .. import core
from . import _gen

LEVEL = "proof"
EXPLANATION = ("Sequential refinement, invariants and iteration completeness are Coq theorems about Dict/Model.v, which is compared "
               "with the real code exactly (M1). The insert-only concurrent class {put_if_absent, get} has a micro-step machine (Dict/Micro.v) with "
               "theorems for every schedule (ins_inv, pia_result, pia_unique, get_sound) and is replayed against the real code at the "
               "interposed schedule points (M3). Linearizability with delete / replacing put is searched, not proved; the search reproduces "
               "the open findings concurrent-replacing-put / concurrent-delete-reclaim / concurrent-delete-vs-put on every run.")
M64 = (1 << 64) - 1
HKINDS = {0: "identity", 1: "constant", 2: "low-2-bits", 3: "negated", 4: "multiplicative(int, may be negative)",
          5: "qt_hash64 truncated to int", 6: "table (adversarial)", 7: "high-bits-only (k<<20)", 8: "INT_MIN|k", 9: "k mod 7"}


# ----------------------------------------------------------------------------------------------------------------
# generators
# ----------------------------------------------------------------------------------------------------------------
def adversarial_table(rng, keys):
    """int hash values aimed at the split-order arithmetic: equal hashes (collision chains), values equal modulo
    every table size but different above, sign bit set (sign extension + MSB masking), extremes"""
    pool = [0, 1, 2, 3, 4, 7, 8, 15, 16, 31, 32, 63, 64, 255, 256, 1 << 20, (1 << 20) + 1, (1 << 30), (1 << 31) - 1,
            -1, -2, -(1 << 31), -(1 << 31) + 1, -(1 << 20), 0x55555555, -0x55555556, 0x7ffffffe]
    style = rng.below(4)
    tab = {}
    base = rng.choice(pool)
    for k in keys:
        if style == 0:
            h = rng.choice(pool)
        elif style == 1:                      # few classes -> long chains of equal so_key
            h = base + rng.below(2)
        elif style == 2:                      # same low bits, different high bits
            h = (rng.below(4)) | (rng.below(16) << rng.choice([8, 16, 24, 27]))
            if rng.chance(1, 3):
                h = -h
        else:
            h = rng.range(-(1 << 31), (1 << 31) - 1)
        tab[k] = max(-(1 << 31), min((1 << 31) - 1, h))
    return tab


def gen_small(rng, malformed):
    K = rng.choice([1, 2, 3, 4, 5, 6, 8, 10, 12, 16])
    keys = list(range(1, K + 1))
    kind = rng.choice([0, 1, 2, 3, 4, 5, 6, 6, 6, 7, 8, 9])
    cap = rng.choice([2, 3, 4, 4, 5, 8, 8, 12, 16, 64, 0])
    nops = rng.range(20, 140)
    tab = adversarial_table(rng, keys + [0]) if kind == 6 else None
    ops = []
    wp, wa, wg, wx = rng.choice([(4, 3, 2, 2), (6, 1, 1, 1), (2, 5, 2, 3), (3, 3, 1, 5), (8, 0, 1, 0)])
    live_bias = rng.below(3)
    for i in range(nops):
        op = rng.weighted([("p", wp), ("a", wa), ("g", wg), ("x", wx)])
        k = rng.choice(keys) if live_bias else rng.choice(keys[:max(1, K // 2)])
        v = rng.range(1, 999)
        if malformed and rng.chance(1, 6):
            if rng.chance(1, 2):
                k = 0
            else:
                v = 0
        ops.append((op, k, v))
    lines = []
    for j, (op, k, v) in enumerate(ops):
        lines.append("%s %d %d" % (op, k, v) if op in "pa" else "%s %d" % (op, k))
        lines.append("D")
        if rng.chance(1, 12) or j == len(ops) - 1:
            lines.append("I")
    return dict(family="small" + ("-malformed" if malformed else ""), cap=cap, kind=kind, tab=tab, keys=sorted(set(keys + [0])), lines=lines)


def gen_growth(rng, nmax):
    """distinct keys past every doubling threshold (old count >= 5*size), probes at threshold-1/threshold/threshold+1"""
    kind = rng.choice([0, 3, 4, 5, 7, 2, 9, 6])
    cap = rng.choice([0, 0, 64, 32, 48, 256])
    n = rng.range(nmax // 2, nmax)
    keys = list(range(1, n + 1))
    tab = adversarial_table(rng, keys + [0]) if kind == 6 else None
    lines = []
    size = 2
    count = 0
    k = 1
    op = rng.choice("pa")
    while k <= n:
        thr = 5 * size
        if count < thr - 1 and k + (thr - 1 - count) <= n and thr - 1 - count > 3:
            m = thr - 1 - count
            lines.append("R %d %s %d %d 1" % (m, op, k, 1000 + k))
            k += m
            count += m
            lines.append("d")
        else:
            lines.append("%s %d %d" % (op, k, 1000 + k))
            if count // size > 4 and 2 * size <= (cap or (1 << 20)):
                size *= 2
            count += 1
            k += 1
            lines.append("d")
            if rng.chance(1, 3):
                lines.append("g %d" % rng.range(1, k))
    lines.append("I")
    for _ in range(rng.range(10, 60)):
        c = rng.below(4)
        kk = rng.range(1, n + 3)
        lines.append(["g %d" % kk, "x %d" % kk, "p %d %d" % (kk, 5), "a %d %d" % (kk, 6)][c])
        lines.append("d")
    lines.append("I")
    lines.append("D")
    return dict(family="growth", cap=cap, kind=kind, tab=tab, keys=list(range(0, n + 4)), lines=lines)


def gen_cap(rng, big):
    """same few keys put again and again: count grows on every put (also on replacement), size doubles up to the cap"""
    cap = rng.choice([2, 3, 4, 5, 7, 8, 9, 16, 31, 100, 1000, 1024, 5000]) if not big else 0
    kind = rng.choice([0, 4, 5, 8])
    nk = rng.choice([1, 2, 4])
    lines = []
    target = (cap if cap else (1 << 17))     # default cap (2^20): stop at 2^17, the clamp itself is exercised with small caps
    total = 0
    size = 2
    while True:
        thr = 5 * size
        m = thr - total - 1
        if m > 0:
            lines.append("R %d p %d %d %d" % (m, 1 + rng.below(nk), 7, 0))
            total += m
        for _ in range(3):
            lines.append("p %d %d" % (1 + rng.below(nk), 9))
            lines.append("d")
            lines.append("g %d" % (1 + rng.below(nk)))
            total += 1
        if 2 * size > target:
            break
        size *= 2
    lines.append("D" if not big else "d")
    lines.append("I")
    return dict(family="cap" + ("-default-to-2^17" if big else ""), cap=cap, kind=kind, tab=None, keys=list(range(0, nk + 1)), lines=lines)


CORPUS = [
    # boundary cases that always run first
    dict(family="corpus-empty", cap=4, kind=0, tab=None, keys=[0, 1], lines=["I", "g 1", "x 1", "D", "I"]),
    dict(family="corpus-replace-count", cap=8, kind=1, tab=None, keys=[0, 1, 2, 3],
         lines=["p 1 5", "p 1 6", "p 1 7", "D", "x 1", "D", "I", "a 1 8", "a 1 9", "x 1", "x 1", "D", "I"]),
    dict(family="corpus-chain", cap=8, kind=1, tab=None, keys=[0, 1, 2, 3, 4],
         lines=["a 3 30", "a 1 10", "a 2 20", "D", "p 1 11", "D", "x 3", "D", "a 4 40", "D", "I", "x 1", "x 2", "x 4", "D", "I"]),
    dict(family="corpus-null-value", cap=8, kind=0, tab=None, keys=[0, 1, 2],
         lines=["p 1 0", "D", "p 1 5", "D", "x 1", "D", "g 1", "I", "a 2 0", "a 2 0", "D", "I"]),
    dict(family="corpus-null-key", cap=8, kind=0, tab=None, keys=[0, 1, 2],
         lines=["p 0 5", "D", "g 0", "I", "p 0 6", "D", "x 0", "D", "p 1 1", "I"]),
    dict(family="corpus-threshold", cap=0, kind=0, tab=None, keys=list(range(0, 12)),
         lines=["R 9 p 1 1 1", "d", "p 10 1", "d", "p 11 1", "d", "p 11 1", "d", "D", "I"]),
    dict(family="corpus-parents", cap=0, kind=0, tab=None, keys=list(range(0, 333)),       # every bucket < 128 through GET_PARENT
         lines=["R 330 a 1 1 1", "D", "g 33", "g 97", "x 65", "D", "I"]),
    dict(family="corpus-cap3", cap=3, kind=0, tab=None, keys=[0, 1], lines=["R 30 p 1 1 0", "d", "D"]),
    dict(family="corpus-signext", cap=16, kind=6, tab={0: 0, 1: -1, 2: -(1 << 31), 3: (1 << 31) - 1, 4: -2, 5: 1}, keys=[0, 1, 2, 3, 4, 5],
         lines=["p 1 1", "p 2 2", "p 3 3", "p 4 4", "p 5 5", "D", "R 40 p 1 9 0", "D", "g 2", "g 3", "x 4", "D", "I"]),
]


# ----------------------------------------------------------------------------------------------------------------
# running cases
# ----------------------------------------------------------------------------------------------------------------
def impl_script(case):
    s = []
    if case["tab"]:
        s.append("T " + " ".join("%d %d" % (k, h) for k, h in sorted(case["tab"].items())))
    s.append("N %d %d" % (case["cap"], case["kind"]))
    s.append("h " + " ".join(map(str, case["keys"])))
    s += case["lines"]
    return s


def split_cases(out, cases):
    """harness output -> per-case lists of lines (None for cases after a crash/timeout)"""
    res = []
    pos = 0
    for c in cases:
        n = len(impl_script(c))
        chunk = out[pos:pos + n]
        pos += n
        if len(chunk) < n or "TIMEOUT" in chunk:
            res.append(chunk if chunk else None)
        else:
            res.append(chunk)
    return res


def run_impl(exe, cases, env, timeout=600):
    script = []
    for c in cases:
        script += impl_script(c)
    rc, out, err = core.run_lines(exe, script + ["Q"], timeout=timeout, env=env)
    if not out or not out[0].startswith("H "):
        raise core.BuildError("c16 harness did not start: rc=%s %s" % (rc, err[-500:]))
    return out[0], split_cases(out[1:], cases), rc


def run_model(drv, cases, impl_chunks, timeout=900):
    script = []
    idx = []
    for c, ch in zip(cases, impl_chunks):
        if not ch:
            idx.append(None)
            continue
        off = 1 if c["tab"] else 0
        hline = ch[off + 1] if len(ch) > off + 1 else "h"
        hv = hline.split()[1:]
        cap = ch[off].split()[3]                     # hard_max_buckets as the real code reports it (cap 0 = built-in default)
        s = ["T " + " ".join("%d %s" % (k, h) for k, h in zip(c["keys"], hv)), "N %s" % cap] + c["lines"]
        idx.append((len(script), len(s)))
        script += s
    rc, out, err = core.run_lines(drv, script, timeout=timeout)
    res = []
    for i in idx:
        res.append(None if i is None else out[i[0]:i[0] + i[1]])
    return res


def spec_oracle(case, impl):
    """the property on the implementation's own output: a reference map.  Returns reason or None.
    Only for scripts that respect the preconditions (no NULL key, no NULL value)."""
    m = {}
    off = (1 if case["tab"] else 0) + 2
    lines = case["lines"]
    for j, l in enumerate(lines):
        if off + j >= len(impl):
            return "no output for step %d (%s): crash or hang" % (j, l)
        o = impl[off + j].split()
        p = l.split()
        if o and o[0] == "TIMEOUT":
            return "step %d (%s) never returned" % (j, l)
        if p[0] in "pa" and (int(p[1]) == 0 or int(p[2]) == 0):
            return None
        if p[0] == "p":
            k, v = int(p[1]), int(p[2]); m[k] = v
            if int(o[1]) != v:
                return "step %d: put(%d,%d) returned %s" % (j, k, v, o[1])
        elif p[0] == "a":
            k, v = int(p[1]), int(p[2])
            exp = m.setdefault(k, v)
            if int(o[1]) != exp:
                return "step %d: put_if_absent(%d,%d) returned %s, the value associated is %d" % (j, k, v, o[1], exp)
        elif p[0] == "g":
            k = int(p[1])
            if int(o[1]) != m.get(k, 0):
                return "step %d: get(%d) returned %s, latest put is %d" % (j, k, o[1], m.get(k, 0))
        elif p[0] == "x":
            k = int(p[1])
            exp = m.pop(k, 0)
            if int(o[1]) != exp:
                return "step %d: delete(%d) returned %s, removed value is %d" % (j, k, o[1], exp)
        elif p[0] == "R":
            n, op, k, v, ks = int(p[1]), p[2], int(p[3]), int(p[4]), int(p[5])
            last = 0
            for i in range(n):
                if op == "p":
                    m[k + i * ks] = v + i; last = v + i
                else:
                    last = m.setdefault(k + i * ks, v + i)
            if int(o[1]) != last:
                return "step %d: %s returned %s, expected %d" % (j, l, o[1], last)
        elif p[0] == "I":
            body = impl[off + j].split("|")[1].split()
            got = [tuple(map(int, x.split(":"))) for x in body]
            ks = [k for k, _ in got]
            if len(set(ks)) != len(ks):
                return "step %d: iteration visits a key twice: %s" % (j, body[:20])
            if dict(got) != m:
                missing = sorted(set(m) - set(ks))[:5]
                extra = sorted(set(ks) - set(m))[:5]
                return "step %d: iteration differs from the present keys (missing %s, extra %s, or stale values)" % (j, missing, extra)
        elif p[0] == "D":
            ents = impl[off + j].split("|")[1].split()
            reg = [e.split(":") for e in ents]
            if any(e[2].endswith("!") for e in reg):
                return "step %d: a logically deleted node is still linked after a sequential delete" % j
    return None


def shrink_case(exe, drv, case, env):
    """delta-debug the op lines of a disagreeing case"""
    def fails(lines):
        c = dict(case, lines=list(lines))
        try:
            _, ch, _ = run_impl(exe, [c], env, timeout=60)
            mo = run_model(drv, [c], ch, timeout=60)
        except Exception:
            return False
        if not ch[0] or mo[0] is None:
            return True
        off = 1 if c["tab"] else 0
        return ch[0][off + 2:] != mo[0][2:]
    if len(case["lines"]) > 4000:
        return case
    try:
        return dict(case, lines=core.ddmin(case["lines"], fails, budget=120))
    except Exception:
        return case


# ----------------------------------------------------------------------------------------------------------------
# M4: concurrent histories, per-key linearizability
# ----------------------------------------------------------------------------------------------------------------
def lin_check_key(ops):
    """ops: list of (inv, res, op, arg, ret) on ONE key, initial state absent (0).
    Wing-Gong search with memoisation.  Returns True when a linearization exists."""
    n = len(ops)
    if n == 0:
        return True
    ops = sorted(ops)
    full = (1 << n) - 1
    seen = set()
    stack = [(0, 0)]
    while stack:
        done, st = stack.pop()
        if done == full:
            return True
        if (done, st) in seen:
            continue
        seen.add((done, st))
        # minimal ops: not done, and no other not-done op returned before their invocation
        minres = min(ops[i][1] for i in range(n) if not (done >> i) & 1)
        for i in range(n):
            if (done >> i) & 1:
                continue
            inv, res, op, arg, ret = ops[i]
            if inv > minres:
                break
            if op == "p":
                ok, ns = (ret == arg), arg
            elif op == "a":
                if st == 0:
                    ok, ns = (ret == arg), arg
                else:
                    ok, ns = (ret == st), st
            elif op == "g":
                ok, ns = (ret == st), st
            else:
                ok, ns = (ret == st), 0
            if ok:
                stack.append((done | (1 << i), ns))
    return False


WORKLOADS = {
    # op mix -> signature of the input class (concurrent tasks restricted to these operations on a shared small key set)
    "insert-only": ([("a", 5), ("g", 3)], "concurrent-insert-only"),
    "put-no-delete": ([("p", 5), ("a", 2), ("g", 3)], "concurrent-replacing-put"),
    "delete-no-put": ([("a", 5), ("g", 2), ("x", 4)], "concurrent-delete-reclaim"),
    "mixed": ([("p", 4), ("a", 2), ("g", 2), ("x", 4)], "concurrent-delete-vs-put"),
}


def gen_conc(rng, wl):
    """per-task op lists over a small key set, restricted to the operations of workload `wl`"""
    nt = rng.choice([2, 2, 3, 4, 6, 8])
    K = rng.choice([1, 2, 2, 3, 4, 6])
    nops = rng.range(3, 14)
    kind = rng.choice([0, 1, 2, 9, 1])
    cap = rng.choice([2, 4, 8, 0])
    val = [100]
    tasks = []
    for t in range(nt):
        l = []
        for i in range(nops):
            op = rng.weighted(WORKLOADS[wl][0])
            val[0] += 1
            l.append((op, rng.range(1, K), val[0]))
        tasks.append(l)
    return dict(tasks=tasks, kind=kind, cap=cap, K=K, prob=rng.choice([40, 90, 140, 200]), seed=rng.next() & 0xffffffff, workload=wl)


# minimal witnesses of the open findings (deterministic on 1 shepherd x 1 worker); always run first
CONC_CORPUS = [
    dict(tasks=[[], [("x", 1, 105)], [("a", 1, 110)]], kind=1, cap=2, K=1, prob=90, seed=2788162737, workload="delete-no-put"),
    dict(tasks=[[("p", 2, 102)], [("p", 2, 107)], [("a", 1, 113)]], kind=1, cap=0, K=2, prob=200, seed=3496510089, workload="put-no-delete"),
    dict(tasks=[[], [("p", 2, 110)], [("p", 2, 112), ("a", 1, 114)]], kind=1, cap=4, K=2, prob=200, seed=1651698045, workload="mixed"),
]


def conc_script(c, spin):
    s = ["N %d %d" % (c["cap"], c["kind"]), "c"]
    for t, l in enumerate(c["tasks"]):
        for (op, k, v) in l:
            s.append("t %d %s %d %d" % (t, op, k, v))
    s.append("G %d %d %d" % (c["prob"], spin, c["seed"]))
    s += ["g %d" % k for k in range(1, c["K"] + 1)]
    s.append("I")
    return s


def conc_eval(c, out):
    """-> (per-key verdicts {key: history} for non-linearizable keys, events) ; None if the run died"""
    ev = [l.split() for l in out if l.startswith("E ")]
    nev = sum(len(l) for l in c["tasks"])
    gl = [l for l in out if l.startswith("g ")]
    il = [l for l in out if l.startswith("I ")]
    if len(ev) != nev or len(gl) != c["K"] or not il or any(l == "TIMEOUT" for l in out):
        return None
    byk = {}
    last = 0
    for e in ev:
        t, i, op, k, v, ret, inv, res = int(e[1]), int(e[2]), e[3], int(e[4]), int(e[5]), int(e[6]), int(e[7]), int(e[8])
        byk.setdefault(k, []).append((inv, res, op, v, ret, t))
        last = max(last, res)
    it = dict(tuple(map(int, x.split(":"))) for x in il[0].split("|")[1].split())
    itkeys = [int(x.split(":")[0]) for x in il[0].split("|")[1].split()]
    bad = {}
    for k in range(1, c["K"] + 1):
        h = [(a, b, o, v, r) for (a, b, o, v, r, t) in byk.get(k, [])]
        fin = int(gl[k - 1].split()[1])
        h.append((last + 1, last + 2, "g", 0, fin))                 # the quiescent get
        h.append((last + 3, last + 4, "g", 0, it.get(k, 0)))        # the quiescent iteration
        if itkeys.count(k) > 1 or not lin_check_key(h):
            bad[k] = dict(history=[dict(task=t, op=o, arg=v, ret=r, inv=a, res=b) for (a, b, o, v, r, t) in sorted(byk.get(k, []))],
                          final_get=fin, iteration=[x for x in il[0].split("|")[1].split() if x.startswith("%d:" % k)])
    return bad


def conc_class(c):
    return WORKLOADS[c["workload"]][1]


def run_conc(exe, c, env, spin, timeout=40):
    """one process per case: a crash / corrupted pool cannot leak into the next case"""
    rc, out, err = core.run_lines(exe, conc_script(c, spin) + ["Q"], timeout=timeout, env=env)
    return conc_eval(c, out)


def minimise_conc(exe, c, env, key, spin, tries=3, budget_s=12.0):
    """drop ops (from the end of each task list) while the same key stays non-linearizable in `tries` runs out of `tries`"""
    import time
    t_end = time.time() + budget_s

    def bad(cc):
        if time.time() > t_end:
            return False
        for _ in range(tries):
            r = run_conc(exe, cc, env, spin, timeout=60)
            if r is None or key not in r:
                return False
        return True
    cur = c
    changed = True
    rounds = 0
    while changed and rounds < 40:
        changed = False
        rounds += 1
        for t in range(len(cur["tasks"])):
            for i in range(len(cur["tasks"][t]) - 1, -1, -1):
                cand = dict(cur, tasks=[l[:] for l in cur["tasks"]])
                del cand["tasks"][t][i]
                if sum(len(l) for l in cand["tasks"]) == 0:
                    continue
                if bad(cand):
                    cur = cand
                    changed = True
                    break
            if changed:
                break
    return cur


# ----------------------------------------------------------------------------------------------------------------
# M3: insert-only runs on 1x1 replayed against the extracted micro-step machine (Dict/Micro.v)
# ----------------------------------------------------------------------------------------------------------------
M63 = (1 << 63) - 1


def rev64(x):
    return int(format(x & M64, "064b")[::-1], 2)


def gen_micro(rng):
    if rng.chance(2, 5):
        # a collision chain in bucket 0 with the dummy of bucket 1 right behind it: an insert at the end of the chain while a
        # searcher waits in the equals callback of its last node makes the searcher's `*prev != cur` re-check fail (re-search)
        kind = 2
        keys = [1] + [4 * i for i in range(1, rng.range(2, 5) + 1)]
    else:
        kind = rng.choice([0, 1, 1, 2, 3, 4, 7, 8, 9])
        keys = list(range(1, rng.choice([1, 2, 2, 3, 4, 6]) + 1))
    setup = []
    for k in keys:
        setup.append(("g", k, 0))
        if rng.chance(1, 3):
            setup.append(("a", k, 50 + k))
    setup = rng.shuffle(setup)
    nt = rng.choice([2, 2, 3, 4, 6])
    val = [100]
    tasks = []
    for t in range(nt):
        l = []
        for i in range(rng.range(1, 8)):
            op = rng.weighted([("a", 5), ("g", 3)])
            val[0] += 1
            l.append((op, rng.choice(keys), val[0]))
        tasks.append(l)
    return dict(keys=keys, kind=kind, setup=setup, tasks=tasks, prob=rng.choice([60, 120, 180, 230]), seed=rng.next() & 0xffffffff)


MICRO_CORPUS = [
    # two inserters of the same key racing for the same gap; a getter in between; a colliding neighbour (constant hash)
    dict(keys=[1, 2], kind=1, setup=[("g", 1, 0), ("g", 2, 0)], tasks=[[("a", 1, 101)], [("a", 1, 102)], [("g", 1, 103), ("a", 2, 104)]], prob=255, seed=7),
    dict(keys=[1, 2, 3], kind=1, setup=[("g", 1, 0), ("a", 2, 52)], tasks=[[("a", 1, 101), ("a", 3, 102)], [("a", 3, 103), ("a", 1, 104)], [("g", 3, 0), ("g", 1, 0)]], prob=200, seed=11),
]


MICRO_STATS = dict(cas=0, linked=0, equals=0, switches=0, init_ok=0)


def micro_script(c):
    s = ["N 2 %d" % c["kind"], "h " + " ".join(str(k) for k in c["keys"])]
    s += [("a %d %d" % (k, v)) if op == "a" else ("g %d" % k) for (op, k, v) in c["setup"]]
    s += ["D", "c"]
    for t, l in enumerate(c["tasks"]):
        for (op, k, v) in l:
            s.append("t %d %s %d %d" % (t, op, k, v))
    s.append("G %d 0 %d" % (c["prob"], c["seed"]))
    s.append("D")
    return s


def run_micro(exe, drv, c, env, timeout=90):
    """-> (mismatch description or None, oracle reason or None, number of schedule events)"""
    rc, out, err = core.run_lines(exe, micro_script(c) + ["Q"], timeout=timeout, env=env)
    ns = len(c["setup"])
    if len(out) < 4 + ns or any(l == "TIMEOUT" for l in out):
        return "the real code crashed or hung", "insert-only run crashed or hung", 0
    hv = dict(zip(c["keys"], [int(x) for x in out[2].split()[1:]]))
    setup_out = out[3:3 + ns]
    dumps = [l for l in out if l.startswith("D ")]
    ev = [l.split() for l in out if l.startswith("E ")]
    sl = [l for l in out if l.startswith("S")]
    nev = sum(len(l) for l in c["tasks"])
    if len(dumps) != 2 or len(ev) != nev or not sl:
        return "the real code crashed or hung", "insert-only run crashed or hung", 0
    init = dumps[0].split("|")[1].split()
    if any(x.endswith("!") for x in init + dumps[1].split("|")[1].split()):
        return "marked node in an insert-only run", "a node is marked although nothing was deleted", 0
    sos = [int(x.split(":")[0]) for x in init]
    iks = [int(x.split(":")[1]) for x in init]

    def start_of(k):
        b = (hv[k] & M63) % 2
        for i, (so, key) in enumerate(zip(sos, iks)):
            if so == rev64(b) and key == 0:
                return i
        return None
    ms = ["S " + " ".join("%d %d" % (k, rev64((hv[k] & M63) | (1 << 63))) for k in c["keys"]),
          "L " + " ".join(init)]
    nt = 0
    for t, l in enumerate(c["tasks"]):
        if l:
            nt = t + 1
        for (op, k, v) in l:
            st = start_of(k)
            if st is None:
                return "bucket of key %d not initialised by the set-up" % k, None, 0
            ms.append("P %d %s %d %d %d" % (t, op, k, v, st))
    # the precondition of the Coq theorems (micro_init_general), evaluated on the real dump
    vals_sof = {k: rev64((hv[k] & M63) | (1 << 63)) for k in c["keys"]}
    okinit = bool(init) and all(sos[i] <= sos[i + 1] for i in range(len(sos) - 1)) and \
        all(k == 0 or (k in vals_sof and so == vals_sof[k]) for so, k in zip(sos, iks)) and \
        len([k for k in iks if k]) == len(set(k for k in iks if k)) and \
        all(sos[start_of(k)] < vals_sof[k] and k != 0 for l in c["tasks"] for (op, k, v) in l)
    if okinit:
        MICRO_STATS["init_ok"] += 1
    else:
        return "initial state violates init_ok (precondition of the micro-step theorems): %s" % dumps[0][:300], None, 0
    ms.append("B %d" % nt)
    events = [tuple(map(int, x.split(":"))) for x in sl[0].split()[1:]]
    MICRO_STATS["cas"] += sum(1 for (t, kd) in events if kd == 1)
    MICRO_STATS["linked"] += len(dumps[1].split("|")[1].split()) - len(init)
    MICRO_STATS["equals"] += sum(1 for (t, kd) in events if kd == 4)
    MICRO_STATS["switches"] += sum(1 for i in range(1, len(events)) if events[i][0] != events[i - 1][0])
    for (t, kd) in events:
        ms.append("X %d" % t)
    ms.append("D")
    for t in range(nt):
        ms.append("R %d" % t)
    rc2, mo, merr = core.run_lines(drv, ms, timeout=timeout)
    base = 2 + sum(len(l) for l in c["tasks"]) + 1
    mism = None
    xs = mo[base:base + len(events)]
    for i, ((t, kd), x) in enumerate(zip(events, xs)):
        if x != "x %d" % kd:
            mism = "schedule point %d: task %d arrives at kind %d in the real code, the machine says '%s'" % (i, t, kd, x)
            break
    if mism is None and len(mo) >= base + len(events) + 1 + nt:
        md = mo[base + len(events)]
        if md.split("|")[1].split() != dumps[1].split("|")[1].split():
            mism = "final list differs: impl %s model %s" % (dumps[1][:300], md[:300])
        for t in range(nt):
            mr = mo[base + len(events) + 1 + t].split()[1:]
            ir = [e[6] for e in ev if int(e[1]) == t]
            if mism is None and mr != ir:
                mism = "results of task %d differ: impl %s model %s" % (t, ir, mr)
    elif mism is None:
        mism = "model driver output truncated"
    # oracle on the implementation's own behaviour: per-key linearizability, set-up ops as a sequential prefix
    why = None
    byk = {}
    stamp = -2 * ns - 2
    for (op, k, v), o in zip(c["setup"], setup_out):
        byk.setdefault(k, []).append((stamp, stamp + 1, op, v, int(o.split()[1])))
        stamp += 2
    last = 0
    for e in ev:
        op, k, v, ret, inv, res = e[3], int(e[4]), int(e[5]), int(e[6]), int(e[7]), int(e[8])
        byk.setdefault(k, []).append((inv, res, op, v, ret))
        last = max(last, res)
    fin = {}
    for x in dumps[1].split("|")[1].split():
        so, k, v = (int(y) for y in x.split(":"))
        if k:
            if k in fin:
                why = "key %d is in the list twice" % k
            fin[k] = v
    for k, h in byk.items():
        h.append((last + 1, last + 2, "g", 0, fin.get(k, 0)))
        if why is None and not lin_check_key(h):
            why = "non-linearizable insert-only history on key %d: %s" % (k, sorted(h)[:12])
    return mism, why, len(events)


# ----------------------------------------------------------------------------------------------------------------
def _t(ctx, what):
    if os.environ.get("VERIF_DEBUG"):
        import sys, time
        sys.stderr.write("[c16 %6.1fs] %s\n" % (time.time() - ctx.t0, what))


def run(ctx):
    rng = ctx.rng
    quick = ctx.tier == "quick"
    _gen.regen(ctx, ["Dict", "Hash"])      # Gen/Dict.v regenerated from the source + Properties_Gen_C16.v (tools/ctrans.py)
    pr = ctx.coq_properties("Properties/Properties_C16.v")
    exe = ctx.link("c16_dict", ["c16_dict.c"], exclude=["ds/dictionary/dictionary_shavit.c"])
    drv = ctx.model_driver("c16_driver")
    env11 = core.qenv(1, 1, stack=65536)

    # ---------------- M1 ----------------
    cases = list(CORPUS)
    r = rng.fork()
    for i in range(120 if quick else 700):
        cases.append(gen_small(r, malformed=(i % 8 == 7)))
    for i in range(5 if quick else 24):
        cases.append(gen_growth(r, 700 if quick else 3000))
    for i in range(10 if quick else 40):
        cases.append(gen_cap(r, big=False))
    if not quick:
        cases.append(gen_cap(r, big=True))
    # hash.c: qt_hash64 on boundary and random arguments
    zargs = [0, 1, 2, 255, 256, 0x7f000000, 0x80000000, 0xff000000, 0xffffffff, 1 << 32, 1 << 63, M64, 0x0123456789abcdef] + \
            [r.next() for _ in range(300 if quick else 3000)] + [(r.next() & 0xff) << (8 * r.below(8)) for _ in range(64)]
    zcase = dict(family="qt_hash64", cap=2, kind=0, tab=None, keys=[0], lines=["Z " + " ".join(map(str, zargs))])
    cases.append(zcase)

    _t(ctx, "built")
    head, impl, rc = run_impl(exe, cases, env11, timeout=600 if quick else 1500)
    _t(ctx, "impl ran")
    model = run_model(drv, cases, impl, timeout=600 if quick else 1500)
    _t(ctx, "model ran")
    evals = 0
    mismatches = []
    oracle_fail = []
    fam_hist = {}
    kind_hist = {}
    opcount = {}
    nontrivial = set()
    samples = []
    max_size = 0
    growth_steps = set()
    for c, ic, mc in zip(cases, impl, model):
        fam_hist[c["family"]] = fam_hist.get(c["family"], 0) + 1
        kind_hist[HKINDS[c["kind"]]] = kind_hist.get(HKINDS[c["kind"]], 0) + 1
        off = 1 if c["tab"] else 0
        brief = dict(family=c["family"], cap=c["cap"], hash=HKINDS[c["kind"]], table=c["tab"])
        if not ic or len(ic) < len(impl_script(c)) or mc is None:
            done = max(0, (len(ic) if ic else 0) - off - 2)
            mismatches.append(("crash-or-hang", dict(brief, lines=c["lines"][:done + 1][-40:], impl_tail=(ic or [])[-3:])))
            if ic:
                why = spec_oracle(c, ic) if not c["family"].endswith("malformed") else None
                oracle_fail.append((why or "the real code crashed or hung at step %d (%s); the model terminates" % (done, c["lines"][min(done, len(c["lines"]) - 1)]), dict(brief, lines=c["lines"][:done + 1])))
            continue
        io, mo = ic[off + 2:], mc[2:]
        evals += len(io)
        for l in c["lines"]:
            opcount[l[0]] = opcount.get(l[0], 0) + 1
        for l in io:
            if l[:2] in ("d ", "D ", "p ", "a ", "x ", "R "):
                p = l.split()
                sz = int(p[1]) if l[0] in "dD" else int(p[2])
                if sz > 2:
                    growth_steps.add(sz)
                max_size = max(max_size, sz)
        sizes = set(l.split()[2] for l in io if l[:2] in ("p ", "a ", "R "))
        if len(sizes) >= 2 or any(("|" in l and l.startswith("D") and len(l.split("|")[1].split()) >= 6) for l in io[-3:]):
            nontrivial.add((c["family"], c["cap"], c["kind"], len(c["lines"]), hash(tuple(c["lines"]))))
        d = core.first_diff(io, mo)
        if d is not None:
            sc = shrink_case(exe, drv, c, env11) if len(mismatches) < 2 else c
            mismatches.append(("step", dict(brief, step=d, line=c["lines"][d] if d < len(c["lines"]) else None,
                                            impl=io[d][:600] if d < len(io) else None, model=mo[d][:600] if d < len(mo) else None,
                                            shrunk_lines=sc["lines"][:80], keys_hashes=ic[off + 1][:300])))
        if c["family"] != "qt_hash64" and "malformed" not in c["family"] and c["family"] not in ("corpus-null-value", "corpus-null-key"):
            why = spec_oracle(c, ic)
            if why:
                oracle_fail.append((why, dict(brief, lines=c["lines"][:int(why.split()[1].rstrip(":")) + 1] if why.startswith("step") else c["lines"][:60])))
        if len(samples) < 3 and c["family"].startswith("small") and len(io) > 20:
            samples.append(dict(brief, lines=c["lines"][:12], impl=[x[:160] for x in io[:12]]))

    _t(ctx, "M1 compared")
    # ---------------- M4 (search) ----------------
    conc_runs = 0
    conc_bad = []        # (signature, config, case, key, hist)
    conc_dead = []
    conc_ops = 0
    wl_hist = {}
    r4 = rng.fork()
    configs = [(1, 1, 0), (2, 2, 1), (4, 1, 1)] if quick else [(1, 1, 0), (2, 2, 1), (4, 1, 1), (2, 1, 1), (1, 4, 1)]
    per = (100, 15) if quick else (600, 100)
    wls = ["insert-only", "put-no-delete", "delete-no-put", "mixed", "insert-only"]
    for ci, (ns, nw, spin) in enumerate(configs):
        env = core.qenv(ns, nw, stack=65536)
        fixed = CONC_CORPUS if ci == 0 else []
        for j in range(len(fixed) + (per[0] if ci == 0 else per[1])):
            c = fixed[j] if j < len(fixed) else gen_conc(r4, wls[j % len(wls)])
            wl_hist[c["workload"]] = wl_hist.get(c["workload"], 0) + 1
            conc_runs += 1
            conc_ops += sum(len(l) for l in c["tasks"])
            # a hang in a class with an open finding is cut short; the insert-only class gets the generous watchdog
            res = run_conc(exe, c, env, spin, timeout=90 if c["workload"] == "insert-only" else 8)
            if res is None:
                conc_dead.append((ns, nw, spin, c))
                continue
            for k, h in res.items():
                conc_bad.append((conc_class(c), (ns, nw, spin), c, k, h))
        _t(ctx, "M4 config %dx%d done" % (ns, nw))
    _t(ctx, "M4 ran")
    # ---------------- M3: insert-only class against the micro-step machine ----------------
    mdrv = ctx.model_driver("c16m_driver")
    r3 = rng.fork()
    micro_runs = 0
    micro_events = 0
    micro_mism = []
    for j in range(len(MICRO_CORPUS) + (120 if quick else 1500)):
        c = MICRO_CORPUS[j] if j < len(MICRO_CORPUS) else gen_micro(r3)
        mism, why, nevts = run_micro(exe, mdrv, c, env11)
        micro_runs += 1
        micro_events += nevts
        if mism:
            micro_mism.append((mism, c))
            mismatches.append(("micro-step machine (Dict/Micro.v): " + mism, dict(case=c, script=micro_script(c))))
        if why:
            oracle_fail.append((why, dict(case=c, script=micro_script(c))))
    _t(ctx, "M3 ran")
    # ---------------- verdict ----------------
    corpus_reproduced = sorted(set(conc_class(c) for (sig, cfg, c, k, h) in conc_bad if c in CONC_CORPUS))
    ctx.cov.update(
        evaluations=evals + conc_runs, distinct_nontrivial=len(nontrivial),
        rule="M1 scripts: small key sets (1..16 keys) x 10 hash kinds (collision chains, sign-extended negative hashes, adversarial tables) "
             "x caps 2..2^20 with a full list/bucket dump after every operation; growth scripts past every doubling threshold "
             "(old count = 5*size-1, 5*size, 5*size+1); cap scripts. non-trivial = script in which the table grew or the list held >= 6 nodes",
        samples=samples, traces_validated_against_impl=evals, input_distribution=dict(families=fam_hist, hash_kinds=kind_hist, ops=opcount),
        max_table_size_reached=max_size, table_sizes_reached=sorted(growth_steps), correspondence_mismatches=len(mismatches),
        concurrent=dict(runs=conc_runs, operations=conc_ops, workloads=wl_hist, configs=[list(x) for x in configs],
                        corpus_witnesses_reproduced=corpus_reproduced,
                        non_linearizable_histories=len(conc_bad), classes=sorted(set(b[0] for b in conc_bad)), died=len(conc_dead)),
        micro_step_replay=dict(runs=micro_runs, schedule_points_replayed=micro_events, mismatches=len(micro_mism), task_switches=MICRO_STATS["switches"],
                               cas_attempts=MICRO_STATS["cas"], cas_failed_and_researched=MICRO_STATS["cas"] - MICRO_STATS["linked"], equals_callbacks=MICRO_STATS["equals"],
                               initial_states_satisfying_init_ok=MICRO_STATS["init_ok"]),
        refuted_on_current_tree=["null_value_put_refuted", "null_key_put_refuted"])
    ctx.assumptions += ["sequential consistency; CAS/fetch-add atomic (C18)", "user hash/equals are pure functions, equals decides identity of keys",
                        "keys and values non-NULL (the refuted variants show what happens otherwise)"]
    ctx.notes.append("per-key linearizability under concurrent mutation is searched (M4), not proved; node reclamation (qpool_free without "
                     "hazard protection) is outside the model")
    broken = bool(mismatches) or not pr["ok"]
    if not broken:
        for (w, c) in oracle_fail[:3]:
            ctx.violation("unlisted:" + w.split(":")[0], w, c)
    else:
        what = ("correspondence model/implementation broken (%d cases; first: %s)" % (len(mismatches), mismatches[0][0])) if mismatches else \
               "theorems in %s no longer check" % pr["file"]
        if oracle_fail:
            w, c = oracle_fail[0]
            ctx.violation("broken+input", what + "; failing input: " + w,
                          {"failing_input": c, "reason": w, "first_mismatch": mismatches[0] if mismatches else None, "coq_log": pr["log"][-1500:]})
        else:
            ctx.violation("broken", what, {"theorem_or_correspondence": ("impl != Dict.Model: " + mismatches[0][0]) if mismatches else pr["file"],
                                           "first_mismatch": mismatches[0] if mismatches else None, "coq_log": pr["log"][-1500:]}, no_input=True)
    # concurrent findings: one per class, minimised and replayed
    seen = {}
    for (sig, cfg, c, k, h) in conc_bad:
        seen.setdefault(sig, []).append((cfg, c, k, h))
    for sig, lst in seen.items():
        lst.sort(key=lambda x: (x[0] != (1, 1, 0), sum(len(l) for l in x[1]["tasks"])))
        cfg, c, k, h = lst[0]
        env = core.qenv(cfg[0], cfg[1], stack=65536)
        confirmed = 0
        small = c
        if cfg == (1, 1, 0):
            for _ in range(3):
                rr = run_conc(exe, c, env, 0, timeout=60)
                if rr is not None and k in rr:
                    confirmed += 1
            if confirmed == 3:
                small = minimise_conc(exe, c, env, k, 0, budget_s=8.0 if quick else 40.0)
                rr = run_conc(exe, small, env, 0, timeout=60)
                if rr and k in rr:
                    h = rr[k]
        ctx.violation(sig, "non-linearizable history on key %d (%d occurrences in this run, class %s): %s; final get=%s" % (
                          k, len(lst), sig, " ".join("T%d:%s(%s)=%s[%d,%d]" % (e["task"], e["op"], e["arg"], e["ret"], e["inv"], e["res"]) for e in h["history"][:12]),
                          h["final_get"]),
                      dict(config=list(cfg), replays_confirmed=confirmed, key=k, history=h, case=small, script=conc_script(small, cfg[2])))
    dead_seen = set()
    for (ns, nw, spin, c) in conc_dead:
        sig = conc_class(c)          # a crash/hang is reported in the input class of its workload
        if sig in seen:
            continue
        if sig in dead_seen:
            continue
        dead_seen.add(sig)
        ctx.violation(sig, "the real code crashed or hung in a concurrent %s run on %dx%d" % (c["workload"], ns, nw),
                      dict(config=[ns, nw, spin], case=c, script=conc_script(c, spin)))
    # extension J: the full operation set against the micro-step machine Dict/MicroFull.v (directed schedules, M3)
    from . import _c16_micro
    _c16_micro.run_microfull(ctx, quick)


def replay(ctx, path):
    j = json.load(open(path))
    print(json.dumps(j, indent=1)[:6000])
    rp = j.get("replay", {})
    if isinstance(rp, dict) and "script" in rp:
        exe = ctx.link("c16_dict", ["c16_dict.c"], exclude=["ds/dictionary/dictionary_shavit.c"])
        cfg = rp.get("config", [1, 1, 0])
        rc, out, err = core.run_lines(exe, rp["script"] + ["Q"], timeout=120, env=core.qenv(cfg[0], cfg[1], stack=65536))
        print("\n".join(out[:200]))
        res = conc_eval(rp["case"], out)
        print("non-linearizable keys on replay:", sorted(res) if res is not None else "run died")
        if res:
            ctx.violation(j.get("signature", "replay"), "replayed: " + j.get("what", ""), rp)
        return
    run(ctx)
