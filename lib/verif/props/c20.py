"""C20 blocking system-call proxies are transparent.

Model: coq/theories/Io (tables regenerated from src/io.c + src/syscalls/*.c by tools/c20_srcfacts.py on every run).
Tie: M1 (every wrapper call: the system calls the proxy really executes, with raw arguments, and the value the wrapper
returns == extracted model) + M4 (per-job event trace alloc/hand-off/sys/requeue/free/return accepted by the model's
interleavings) in a live runtime; oracle = the property itself (wrapper vs DIRECT call on twin descriptors: result,
file/pipe contents and offsets; one return per call; job ledger: freed exactly once, never touched after the free)."""
import errno as _errno
import importlib.util
import json
import os
from .. import core

LEVEL = "proof"
EXPLANATION = ("partial by nature: the operating system is an oracle (Section variable `sys` in Coq, the direct call on a twin "
               "descriptor at run time). Proved: dispatch incl. fall-through, marshalling round trip, transparency of every "
               "system-call wrapper for all arguments/OS behaviours, job released once / task requeued once in every "
               "interleaving of task side and proxy side. Modelled, checked by correspondence only: the worker hand-off, the "
               "proxy pool size/timeouts, context switching (qthread_exec/back_to_master), the pool allocator (C14).")

WRAPPERS = ["qt_read", "qt_pread", "qt_write", "qt_pwrite", "qt_poll", "qt_select", "qt_accept", "qt_connect", "qt_wait4",
            "qt_system", "qt_begin_blocking_action"]
NPARAMS = [3, 4, 3, 4, 3, 5, 3, 3, 4, 1, 0]
KINDS = ["read", "pread", "write", "pwrite", "poll", "select", "accept", "connect", "wait4", "system", "user-defined", "sleep", "ticker"]
EXCLUDE = ["io.c"] + ["syscalls/%s.c" % f for f in
                      "accept connect poll pread pwrite read select system user_defined wait4 write".split()]
K_CALL, K_ALLOC, K_HANDOFF, K_SYS, K_SYSDONE, K_REQUEUE, K_FREE, K_RET, K_ENDCALL, K_ENDRET, K_DBLFREE = range(1, 12)


def _srcfacts():
    p = os.path.join(core.VERIF, "tools", "c20_srcfacts.py")
    spec = importlib.util.spec_from_file_location("c20_srcfacts", p)
    m = importlib.util.module_from_spec(spec)
    spec.loader.exec_module(m)
    return m


def bits(v):
    return "0" if v == 0 else ("-" if v < 0 else "") + bin(abs(v))[2:]


def unbits(s):
    return 0 if s == "0" else (-int(s[1:], 2) if s[0] == "-" else int(s, 2))


def s64(x):
    return x - (1 << 64) if x >= (1 << 63) else x


# ------------------------------------------------------------------ scenario generator
def corpus():
    """fixed boundary cases; always run first (kind, a0..a5)"""
    G = 1 << 32
    return [
        (0, 0, 100, 10, 20, 0, 0), (0, 0, 100, 100, 20, 0, 0), (0, 0, 0, 0, 0, 0, 0), (0, 1, 50, 0, 20, 0, 0), (0, 1, 50, 0, 20, 1, 0),
        (0, 1, 0, 0, 5, 0, 0), (0, 2, 10, 0, 100, 0, 0), (0, 2, 7, 0, 7, 1, 0), (0, 3, 0, 0, 4, 0, 0), (0, 1, 5, 0, 0, 0, 0),
        (1, 0, 100, 30, 0, 0, 0), (1, 0, 100, 30, 90, 0, 0), (1, 0, 100, 30, 100, 0, 0), (1, 0, 100, 30, G + 100, 0, 0), (1, 0, 50, 11, (1 << 35) + 7, 0, 0),
        (1, 0, 100, 10, -1, 0, 0), (1, 1, 0, 3, 0, 0, 0), (1, 3, 0, 3, 0, 0, 0), (1, 0, 100, 0, 5, 0, 0),
        # the witnesses of the fixed defect 50c2635 (write must not also pwrite): pipe, socket, file at a non-zero offset
        (2, 1, 0, 0, 5, 0, 0), (2, 2, 0, 0, 5, 0, 0), (2, 0, 10, 4, 3, 0, 0), (2, 4, 10, 0, 7, 0, 0), (2, 0, 0, 0, 0, 0, 0), (2, 3, 0, 0, 4, 0, 0),
        (2, 1, 0, 0, 60000, 0, 0), (2, 0, 4096, 4196, 100, 0, 0),
        (3, 0, 10, 6, 20, 0, 0), (3, 0, 10, 6, G + 5, 0, 0), (3, 0, 10, 0, 3, 0, 0), (3, 0, 10, 6, -1, 0, 0), (3, 1, 0, 1, 0, 0, 0), (3, 3, 0, 1, 0, 0, 0),
        (4, 3, 5, 2, 0, 0, 0), (4, 0, 0, 0, 0, 0, 0), (4, 0, 0, 0, 1, 0, 0), (4, 2, 0, 0, 1, 0, 0), (4, 2, 0, 0, 2, 2, 0), (4, 4, 15, 0, 2, 0, 0),
        (5, 3, 5, 2, 1, 0, 0), (5, 0, 0, 0, 0, 0, 0), (5, 2, 0, 0, 1, 0, 0), (5, 2, 0, 0, 2, 1, 0), (5, 4, 15, 5, 0, 0, 0),
        (6, 0, 1, 0, 0, 0, 0), (6, 0, 0, 0, 0, 0, 0), (6, 1, 1, 0, 0, 0, 0), (6, 2, 0, 0, 0, 0, 0),
        (7, 0, 0, 0, 0, 0, 0), (7, 1, 0, 0, 0, 0, 0), (7, 2, 0, 0, 0, 0, 0), (7, 3, 0, 0, 0, 0, 0),
        (8, 0, 3, 1, 0, 0, 0), (8, 0, 0, 0, 0, 0, 0), (8, 0, 255, 1, 0, 0, 0), (8, 1, 0, 0, 0, 0, 0), (8, 2, 0, 1, 0, 0, 0),
        (9, 0, 3, 0, 0, 0, 0), (9, 0, 0, 0, 0, 0, 0), (9, 1, 4, 0, 0, 0, 0), (9, 2, 0, 0, 0, 0, 0),
        (10, 0, 0, 0, 0, 0, 0), (10, 1, 0, 0, 0, 0, 0), (10, 2, 0, 0, 0, 0, 0),
        (11, 0, 0, 0, 0, 0, 0), (11, 1, 0, 0, 0, 0, 0), (11, 1, 1500, 0, 0, 0, 0), (11, 2, 0, 0, 0, 0, 0), (11, 2, 2500, 0, 0, 0, 0),
    ]


def gen_scen(rng):
    G = 1 << 32
    k = rng.weighted([(0, 5), (1, 4), (2, 5), (3, 4), (4, 4), (5, 4), (6, 2), (7, 2), (8, 2), (9, 1), (10, 2), (11, 1)])
    if k == 0:
        fdk = rng.weighted([(0, 4), (1, 4), (2, 3), (3, 1)])
        if fdk == 0:
            m = rng.choice([0, 1, 100, 4096, 65536, rng.range(0, 5000)])
            off = rng.choice([0, max(0, m - 1), m, m + 5, rng.range(0, m + 1)])
            n = rng.choice([0, 1, max(0, m - off), max(0, m - off) + 1, 65536, rng.range(0, 65536)])
            return (0, 0, m, off, n, 0, 0)
        if fdk == 3:
            return (0, 3, 0, 0, rng.choice([0, 4]), 0, 0)
        m = rng.choice([0, 1, 50, 4096, rng.range(0, 20000)])
        n = rng.choice([0, 1, m, m + 1, 65536, rng.range(0, 65536)])
        delayed = 1 if (m > 0 and n > 0 and rng.chance(1, 3)) else 0
        return (0, fdk, m, 0, n, delayed, 0)
    if k == 1:
        fdk = rng.weighted([(0, 8), (1, 1), (3, 1)])
        m = rng.choice([0, 1, 100, 4096, rng.range(0, 5000)])
        n = rng.choice([0, 1, 10, m, m + 1, rng.range(0, 65536)])
        off = rng.choice([0, max(0, m - 1), m, m + 10, rng.range(0, m + 1), (1 << 31) - 1, G + rng.range(0, 1000), (1 << 35) + 7, -1])
        return (1, fdk, m, n, off, 0, 0)
    if k == 2:
        fdk = rng.weighted([(0, 4), (4, 2), (1, 4), (2, 3), (3, 1)])
        m = rng.choice([0, 10, 4096, rng.range(0, 5000)])
        off = rng.choice([0, m, m + 100, rng.range(0, m + 1)])
        n = rng.choice([0, 1, 100, 4096, 60000, rng.range(0, 60000)])
        return (2, fdk, m, off, n, 0, 0)
    if k == 3:
        fdk = rng.weighted([(0, 8), (1, 1), (3, 1)])
        m = rng.choice([0, 10, 4096, rng.range(0, 5000)])
        n = rng.choice([0, 1, 100, 4096, rng.range(0, 60000)])
        off = rng.choice([0, m, m + 1000, rng.range(0, m + 1), G + rng.range(0, 1000), -1])
        return (3, fdk, m, n, off, 0, 0)
    if k in (4, 5):
        n = rng.range(0, 4)
        if n >= 1 and rng.chance(1, 4):          # genuinely blocking: nothing ready, one read end is written 3 ms later
            return (k, n, 0, 0, 2, 1 << rng.below(n), 0)
        ready, ev = rng.below(1 << n), rng.below(1 << n)
        anyready = any(((ev >> i) & 1) or ((ready >> i) & 1) for i in range(n))
        tk = rng.choice([0, 0, 1, 2]) if anyready else rng.choice([0, 1])
        return (k, n, ready, ev, tk, 0, 0)
    if k == 6:
        return (6, rng.choice([0, 0, 1, 2]), rng.below(2), 0, 0, 0, 0)
    if k == 7:
        return (7, rng.below(4), 0, 0, 0, 0, 0)
    if k == 8:
        return (8, rng.choice([0, 0, 1, 2]), rng.choice([0, 1, 3, 77, 255]), rng.below(2), 0, 0, 0)
    if k == 9:
        return (9, rng.choice([0, 0, 1, 2]), rng.choice([0, 3, 255, 17]), 0, 0, 0, 0)
    if k == 10:
        return (10, rng.below(3), 0, 0, 0, 0, 0)
    return (11, rng.below(3), rng.choice([0, 700, 3000]), 0, 0, 0, 0)


def describe(sc):
    k = sc[0]
    return {"wrapper": KINDS[k], "args": list(sc[1:])}


# ------------------------------------------------------------------ log processing
def parse_output(out):
    """-> (header, rlines, mlines, events, overflow, tail)"""
    H, R, M, EV, over, E = None, [], [], [], False, None
    i, n = 0, len(out)
    timeout = False
    while i < n:
        l = out[i]
        if l.startswith("H "):
            H = l.split()
        elif l.startswith("r "):
            R.append(l)
        elif l.startswith("m "):
            M.append(l)
        elif l.startswith("L "):
            cnt = int(l.split()[1]); over = over or l.split()[2] == "1"
            for j in range(i + 1, min(n, i + 1 + cnt)):
                p = out[j].split()
                if len(p) == 9:
                    EV.append((int(p[0]), int(p[1], 16), int(p[2], 16)) + tuple(int(x) for x in p[3:]))
            i += cnt
        elif l.startswith("E "):
            E = l.split()
        elif l.startswith("TIMEOUT"):
            timeout = True
        i += 1
    return H, R, M, EV, over, E, timeout


def analyse_log(EV):
    """per-call records and per-job instances out of the globally ordered event log; ledger oracle on the way"""
    calls, cur, inst_of_ptr, insts, pending, ledger = {}, {}, {}, [], {}, []
    for seq, e in enumerate(EV):
        kind, who, v0 = e[0], e[1], e[2]
        v = e[3:]
        if kind == K_CALL:
            cur[who] = v0
            calls[v0] = {"idx": v0, "wid": v[0], "params": list(v[1:6]), "sys": [], "ret": None, "errno": None, "inst": None, "rets": 0}
        elif kind == K_ALLOC:
            idx = cur.get(v[1])
            old = inst_of_ptr.get(v0)
            if old is not None and not old["freed"]:
                ledger.append(("job record handed out while still in use (call %s and call %s share one record)" % (old["idx"], idx), idx))
            ins = {"idx": idx, "ptr": v0, "ev": [(seq, 0)], "freed": False, "frees": 0}
            inst_of_ptr[v0] = ins
            insts.append(ins)
            if idx in calls and calls[idx]["inst"] is None:
                calls[idx]["inst"] = ins
        elif kind == K_HANDOFF:
            ins = inst_of_ptr.get(v0)
            if ins is None or ins["freed"]:
                ledger.append(("job record handed to the proxy queue after it was freed", ins and ins["idx"]))
            else:
                ins["ev"].append((seq, 1))
        elif kind == K_SYS:
            pending.setdefault(who, []).append((seq, 100 + v0, list(v[0:5])))
        elif kind == K_SYSDONE:
            pending.setdefault(who, []).append((seq, 2, s64(v0), v[0]))
        elif kind == K_REQUEUE:
            ins = inst_of_ptr.get(v[0] & ((1 << 64) - 1))
            pend = pending.pop(who, [])
            if ins is None or ins["freed"]:
                ledger.append(("task requeued for a job record that is already free", ins and ins["idx"]))
            else:
                c = calls.get(ins["idx"])
                for p in pend:
                    ins["ev"].append((p[0], p[1]))
                    if c is not None:
                        if p[1] >= 100:
                            c["sys"].append([p[1] - 100, p[2], None, None])
                        elif c["sys"]:
                            c["sys"][-1][2], c["sys"][-1][3] = p[2], p[3]
                ins["ev"].append((seq, 3))
        elif kind == K_FREE:
            ins = inst_of_ptr.get(v0)
            if ins is None or ins["freed"]:
                ledger.append(("job record freed twice", ins and ins["idx"]))
            else:
                ins["ev"].append((seq, 5 if v[0] == 1 else 4))
                ins["freed"] = True
        elif kind == K_DBLFREE:
            ins = inst_of_ptr.get(v0)
            ledger.append(("job record freed twice (second free by the %s)" % ("proxy" if v[0] == 1 else "wrapper"), ins and ins["idx"]))
            if ins is not None:
                ins["ev"].append((seq, 5 if v[0] == 1 else 4))
        elif kind in (K_RET, K_ENDCALL, K_ENDRET):
            c = calls.get(v0)
            if c is not None:
                if kind == K_RET:
                    c["ret"], c["errno"] = v[0], v[1]
                    c["rets"] += 1
                if c["inst"] is not None:
                    c["inst"]["ev"].append((seq, {K_RET: 7, K_ENDCALL: 8, K_ENDRET: 9}[kind]))
    for ins in insts:
        if not ins["freed"]:
            ledger.append(("job record never freed", ins["idx"]))
    for who, pend in pending.items():
        if pend:
            ledger.append(("proxy executed a system call for a job it never requeued", None))
    return calls, insts, ledger


# ------------------------------------------------------------------ run
def run(ctx):
    rng = ctx.rng
    quick = ctx.tier == "quick"
    # 1. source-derived tables (the generated file lives in the shared Coq tree: serialise concurrent C20 runs)
    import fcntl
    gen_error = None
    gen = _srcfacts()
    with open(os.path.join(core.COQ, "theories", "Io", ".c20.lock"), "w") as lk:
        fcntl.flock(lk, fcntl.LOCK_EX)
        try:
            text, facts = gen.generate(core.REPO)
            gen.write_if_changed(text)
        except gen.SrcFactsError as e:
            gen_error = str(e)
        except Exception as e:           # clang missing etc.
            raise core.BuildError("tools/c20_srcfacts.py failed: %r" % (e,))
        ok_model, log_model = ctx.coq_make(["theories/Io/Extract.vo"], timeout=900)
        if not ok_model:
            raise core.BuildError("Io/Model.v or the generated Io/GenIoSwitch.v does not compile:\n" + log_model[-2500:])
        pr = ctx.coq_properties("Properties/Properties_C20.v")
        drv0 = ctx.model_driver("c20_driver")
        drv = os.path.join(ctx.scratch, "c20_driver")
        import shutil
        shutil.copy(drv0, drv)
    exe = ctx.link("c20_io", ["c20_io.c"], exclude=EXCLUDE)
    work = os.path.join(ctx.scratch, "io")
    os.makedirs(work, exist_ok=True)

    rc, tout, _ = core.run_lines(drv, ["T"], timeout=120)
    tables = tout[0] if tout else ""
    # do the generated tables say that errno is carried through the job (proxy stores, every wrapper restores)?
    carried = " E 1 " in (tables + " ")
    absent = (tables + " ").rstrip().endswith(" 1") and " E 0 1" in tables
    # 2. scenarios
    if quick:
        configs = [((1, 1), 40, [(8, 300, 60)]), ((2, 2), 40, [(32, 120, 60), (1, 1500, 60)]), ((4, 1), 30, [(64, 30, 60)])]
    else:
        configs = [((1, 1), 150, [(8, 2500, 300), (1, 10000, 300)]), ((2, 2), 150, [(32, 1000, 300), (3, 3000, 300)]),
                   ((4, 1), 100, [(64, 300, 300)]), ((1, 4), 100, [(16, 800, 300)]), ((3, 2), 100, [(24, 400, 300)])]
    evals = 0
    nontrivial = set()
    samples = []
    hist = {}
    mismatches = []       # correspondence failures (model != implementation)
    oracle_fail = []      # (signature or None, reason, case)
    total_calls = 0
    traces_ok = 0
    errno_class = 0
    first_cfg = True
    for (ns, nw), nscen, multis in configs:
        scen = list(corpus()) if (first_cfg or not quick) else list(corpus())[::3]
        first_cfg = False
        r2 = rng.fork()
        scen += [gen_scen(r2) for _ in range(nscen)]
        if (ns, nw) in ((1, 1), (1, 4), (2, 2)):
            scen.append((12, r2.choice([200, 1000, 3000]), 0, 0, 0, 0, 0))
        script = ["c %d %d %s" % (i, sc[0], " ".join(str(x) for x in sc[1:])) for i, sc in enumerate(scen)]
        base = 100000
        for (nt, nc, wd) in multis:
            script.append("M %d %d %d %d %d" % (base, nt, nc, r2.next() % 1000000007, wd))
            base += nt * nc
        script += ["L", "Q"]
        tmo = 120 + sum(m[2] for m in multis)
        rc, out, err = core.run_lines(exe, script, timeout=tmo, env=core.qenv(ns, nw, stack=65536), args=[work])
        H, R, M, EV, over, E, timed_out = parse_output(out)
        cfg = {"shepherds": ns, "workers_per_shepherd": nw}
        if H is None:
            raise core.BuildError("c20 harness did not start on %dx%d: rc=%s %s" % (ns, nw, rc, err[-500:]))
        hung = timed_out or rc != 0 or E is None
        if hung:
            # the command after the last answered one is the failing input
            done = len(R)
            if done < len(scen):
                case = dict(cfg, **describe(scen[done]))
                why = "%s through its wrapper never returned / the process died (rc=%s)" % (KINDS[scen[done][0]], rc)
            else:
                k = len(M)
                case = dict(cfg, concurrent_tasks=multis[min(k, len(multis) - 1)][0], calls_per_task=multis[min(k, len(multis) - 1)][1],
                            ops="pwrite/pread/write/read on twin files, write/read/poll/select on twin pipes")
                why = "long concurrent call sequence never finished / the process died (rc=%s): %s" % (rc, err[-300:].strip())
            oracle_fail.append((None, why, case))
            mismatches.append(("hang", dict(case, reason=why)))
        # ---- transparency oracle on the scenario results
        for l in R:
            head, rest = l.split(" D ", 1)
            dpart, rest = rest.split(" W ", 1)
            wpart, xpart = rest.rsplit(" X ", 1)
            idx, kind = int(head.split()[1]), int(head.split()[2])
            dret, derr, dobs = dpart.split(" ", 2)
            wret, werr, wobs = wpart.split(" ", 2)
            dret, derr, wret, werr, rets = int(dret), int(derr), int(wret), int(werr), int(xpart)
            sc = scen[idx]
            case = dict(cfg, **describe(sc))
            evals += 1
            hist[KINDS[kind]] = hist.get(KINDS[kind], 0) + 1
            why = None
            if kind == 10:
                dreg = dobs.split(",")[0]
                wf = dict(x.split("=") for x in wobs.split(","))
                if "region=" + wf.get("region", "?") != dreg:
                    why = "blocking region result differs: alone %s, inside begin/end %s" % (dreg, wf.get("region"))
                elif wf.get("moved") != "1":
                    why = "the region between qt_begin/qt_end_blocking_action ran on the worker's own pthread"
                elif wf.get("back_on_worker") != "1":
                    why = "after qt_end_blocking_action the task is not back on a worker"
            else:
                if dret != wret:
                    why = "return value differs: direct %d (errno %s), wrapper %d" % (dret, _errno.errorcode.get(derr, derr), wret)
                elif dobs != wobs:
                    why = "effect differs: after the direct call {%s}, after the wrapper {%s} (both returned %d)" % (dobs, wobs, dret)
            if why is None and rets != 1:
                why = "the code after the wrapper call ran %d times" % rets
            if why is not None:
                oracle_fail.append((None, "%s: %s" % (KINDS[kind], why), case))
            elif kind < 10 and dret < 0 and derr != werr and not absent:
                oracle_fail.append((None, "%s: fails with %s when called directly; through the wrapper it returns %d too but the caller's errno is %s "
                                          "(the source mentions errno in the job protocol, so the codes must be equal)" %
                                    (KINDS[kind], _errno.errorcode.get(derr, derr), wret, _errno.errorcode.get(werr, werr)), case))
            elif kind < 10 and dret < 0 and derr != werr:
                errno_class += 1
                oracle_fail.append(("errno-not-propagated",
                                    "%s fails with %s when called directly; qt_%s returns %d too but the caller's errno is %s" %
                                    (KINDS[kind], _errno.errorcode.get(derr, derr), KINDS[kind], wret, _errno.errorcode.get(werr, werr)), case))
            nontrivial.add(sc)
            if len(samples) < 5 and kind in (1, 2, 4, 6, 10) and (ns, nw) == configs[0][0]:
                samples.append(dict(case, direct=dpart, wrapper=wpart))
        for l in M:
            p = l.split(" first=")[0].split()
            nt, nc = int(p[1]), int(p[2])
            kv = dict(x.split("=") for x in p[3:])
            case = dict(cfg, concurrent_tasks=nt, calls_per_task=nc, ops="pwrite/pread/write/read on twin files, write/read/poll/select on twin pipes")
            evals += 1
            total_calls += int(kv["calls"])
            if int(kv["calls"]) != nt * nc:
                oracle_fail.append((None, "tasks returned from %s wrapper calls, %d were made" % (kv["calls"], nt * nc), case))
            if int(kv["mism"]) or kv["files_equal"] != "1" or kv["pipes_equal"] != "1":
                oracle_fail.append((None, "long sequence: %s results differ from the direct calls; twin files equal=%s, twin pipes equal=%s; first: %s" %
                                    (kv["mism"], kv["files_equal"], kv["pipes_equal"], l.split(" first=")[1]), case))
        if over:
            ctx.notes.append("event log overflowed on %dx%d (only a prefix was checked against the model)" % (ns, nw))
        # ---- ledger oracle + correspondence on the event log
        calls, insts, ledger = analyse_log(EV)
        for (why, idx) in ledger[:5]:
            c = calls.get(idx)
            case = dict(cfg, call=WRAPPERS[c["wid"]] if c else None, call_index=idx, params=c["params"][:NPARAMS[c["wid"]]] if c else None)
            if idx is not None and idx < len(scen):
                case.update(describe(scen[idx]))
            if hung and why == "job record never freed":
                continue
            oracle_fail.append((None, "job ledger: " + why, case))
        cmds, meta = [], []
        for idx, c in sorted(calls.items()):
            if c["ret"] is None and hung:
                continue
            wn = WRAPPERS[c["wid"]]
            params = c["params"][:NPARAMS[c["wid"]]]
            rets = [s[2] if s[2] is not None else 0 for s in c["sys"]]
            cmds.append("C %s %d %s r %s p %s" % (wn, 1, "0", " ".join(bits(x) for x in rets), " ".join(bits(x) for x in params)))
            meta.append(("C", idx))
            cmds.append("C %s %d %s r %s p %s" % (wn, 0, "0", " ".join(bits(x) for x in rets), " ".join(bits(x) for x in params)))
            meta.append(("C0", idx))
        # caller's errno after a failing call, per the tables (scenario phase: errno was 0 before the call; without the
        # errno fix the value is only defined when the task cannot resume on another pthread, i.e. on 1x1)
        if carried or (ns, nw) == (1, 1):
            for idx, c in sorted(calls.items()):
                if idx < 100000 and c["wid"] < 10 and c["ret"] == -1 and c["sys"] and c["sys"][-1][3] is not None:
                    cmds.append("R %s 0 -1 -1 %s" % (WRAPPERS[c["wid"]], bits(c["sys"][-1][3])))
                    meta.append(("R", idx))
        for k, ins in enumerate(insts):
            c = calls.get(ins["idx"])
            if c is None or (hung and not ins["freed"]):
                continue
            codes = [code for (_, code) in sorted(ins["ev"])]
            cmds.append("J %s %s" % (WRAPPERS[c["wid"]], " ".join(map(str, codes))))
            meta.append(("J", k))
        rc3, mout, merr = core.run_lines(drv, cmds, timeout=900) if cmds else (0, [], "")
        if len(mout) != len(cmds):
            raise core.BuildError("c20 model driver failed: %s" % merr[-500:])
        for (tag, key), cmd, ans in zip(meta, cmds, mout):
            if tag == "R":
                c = calls[key]
                evals += 1
                if not ans.startswith("R ") or unbits(ans[2:].strip()) != c["errno"]:
                    mismatches.append(("errno", {"config": cfg, "call": WRAPPERS[c["wid"]], "params": c["params"][:NPARAMS[c["wid"]]],
                                                 "errno_of_the_proxied_call": c["sys"][-1][3], "caller_errno_impl": c["errno"], "caller_errno_model": ans}))
                continue
            if tag in ("C", "C0"):
                c = calls[key]
                wn = WRAPPERS[c["wid"]]
                if ans.startswith("ERR"):
                    mismatches.append(("wrapper-table", {"config": cfg, "call": wn, "model": ans}))
                    continue
                mcalls, mret = ans.rsplit("| R ", 1) if "| R " in ans else ("", ans[2:])
                mc = []
                for part in [x.strip() for x in mcalls.split("|") if x.strip()]:
                    w = part.split()
                    mc.append((int(w[1]), [unbits(x) for x in w[2:]]))
                if c["wid"] == 10:
                    impl_c = [(s[0], None) for s in c["sys"]]
                    mc = [(f, None) for (f, a) in mc]
                    impl_ret, model_ret = "void", mret.strip()
                else:
                    nargs = {0: 3, 1: 3, 2: 3, 3: 3, 4: 4, 5: 5, 6: 1, 7: 4, 8: 3, 9: 4, 13: 1}
                    impl_c = [(s[0], s[1][:nargs.get(s[0], 5)]) for s in c["sys"]]
                    mc = [(f, a[:nargs.get(f, 5)]) for (f, a) in mc]
                    impl_ret = c["ret"]
                    model_ret = unbits(mret.strip()) if mret.strip() != "void" else "void"
                evals += 1
                if impl_c != mc or impl_ret != model_ret:
                    mismatches.append(("call", {"config": cfg, "call": wn, "params": c["params"][:NPARAMS[c["wid"]]],
                                                "impl_syscalls": impl_c, "model_syscalls": mc, "impl_returns": impl_ret, "model_returns": model_ret,
                                                "stale_slot_bits": 1 if tag == "C" else 0}))
                if c["rets"] != 1:
                    oracle_fail.append((None, "%s returned %d times for one call" % (wn, c["rets"]), {"config": cfg, "call": wn}))
            else:
                ins = insts[key]
                c = calls[ins["idx"]]
                evals += 1
                if ans != "ok":
                    mismatches.append(("job-trace", {"config": cfg, "call": WRAPPERS[c["wid"]], "observed_events": cmd.split()[2:],
                                                     "legend": "0 alloc 1 hand-off 1xx syscall 2 syscall done 3 requeue 4 free by wrapper 5 free by proxy 7 return 8 end-call 9 end-return"}))
                else:
                    traces_ok += 1
        total_calls += len(R)
    # ------------------------------------------------------------------ verdict
    static_broken = gen_error is not None or not pr["ok"]
    ctx.cov.update(
        evaluations=evals, distinct_nontrivial=len(nontrivial), samples=samples,
        rule="scenario = one wrapper call with concrete descriptor kind (regular file incl. O_APPEND and >4 GiB offsets, pipe, socketpair, "
             "AF_UNIX listener, child process, invalid fd) and argument combination, executed directly and through the wrapper on twin fixtures; "
             "non-trivial = distinct scenario tuples executed; plus long concurrent sequences (calls counted in wrapper_calls)",
        traces_validated_against_impl=traces_ok, wrapper_calls=total_calls, input_distribution=hist,
        configs=[list(c[0]) for c in configs], correspondence_mismatches=len(mismatches),
        generated_tables=tables[:1500], generator_error=gen_error, errno_class_cases=errno_class,
        errno_carried_by_source=carried,
        refuted_on_current_tree=[] if carried else ["transparent_errno_refuted (no wrapper of the source restores errno)"])
    ctx.assumptions += ["LP64 little-endian target (memcpy of an int into the low bytes of a uintptr_t slot)",
                        "the OS is an oracle: Coq Section variable sys; at run time the direct call on a twin descriptor",
                        "errno after a SUCCESSFUL call is unspecified by POSIX and is not compared",
                        "at most io_worker_max (10) calls block on each other at a time (more is a documented capacity limit, not exercised)"]
    broken = bool(mismatches) or static_broken
    seen_known = {}
    unknown = []
    for (s, w, c) in oracle_fail:
        if s is not None and core.match_known("C20", s) is not None:
            seen_known.setdefault(s, (w, c))
        elif s is not None:
            unknown.append(("unlisted %s: %s" % (s, w), c))
        else:
            unknown.append((w, c))
    if not broken:
        for s, (w, c) in seen_known.items():
            ctx.violation(s, w, c)                 # listed as open -> KNOWN-FINDING
        for (w, c) in unknown[:3]:
            ctx.violation("oracle:" + w.split(":")[0], w, c)
    else:
        if gen_error is not None:
            what = "source facts of io.c/syscalls are outside the modelled subset: " + gen_error
        elif not pr["ok"]:
            what = "theorems in %s no longer check against the tables generated from the source" % pr["file"]
        else:
            what = "correspondence model/implementation broken (%d cases), first: %s" % (len(mismatches), mismatches[0][0])
        if unknown:
            w, c = unknown[0]
            ctx.violation("broken+input", what + "; failing input: " + w,
                          {"failing_input": c, "reason": w, "first_mismatch": mismatches[0] if mismatches else None,
                           "coq_log": pr["log"][-1500:], "generated_tables": tables[:1500]})
        else:
            ctx.violation("broken", what,
                          {"theorem_or_correspondence": (gen_error or (pr["file"] if not pr["ok"] else "impl != Io.Model on " + mismatches[0][0])),
                           "first_mismatch": mismatches[0] if mismatches else None, "coq_log": pr["log"][-1500:],
                           "generated_tables": tables[:1500]}, no_input=True)
    # extension P: the job queue and the proxy pthreads under schedules (micro-step machine Io/QueueMicro.v)
    from . import _c20_queue
    _c20_queue.run_queue(ctx, quick)


def replay(ctx, path):
    j = json.load(open(path))
    print(json.dumps(j, indent=1)[:4000])
    run(ctx)
