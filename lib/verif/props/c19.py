"""C19 lifecycle: initialize / finalize are clean and repeatable.

Proof: coq/theories/Lifecycle (bookkeeping model over the registration table re-read from the sources on every run:
c19_subsystems.py -> Lifecycle/GenSubsystems.v; `table_is_expected` lists the exceptions).
Tie (M4): cycles x workloads x configurations on the real runtime (harness/c/c19_lifecycle.c: white-box qthread.c, interposed
malloc ledger, trampolines around every registered cleanup); the extracted model is run on the same (init, uses, finalize)
script and must predict the registered cleanup lists, the order they run in, which lazily created statics are set after
finalize; the property itself (threads/descriptors back to the pre-init count, ledger not growing from cycle 2 on, correct
shepherd/worker counts and workloads in every incarnation, redundant calls harmless, exit handler registered once) is
checked on the measurements.
"""
import json
import re
from .. import core
from . import c19_subsystems
from . import _c19_shutdown      # extension U: worker start-up / shutdown protocol (micro-step machine)

LEVEL = "partial"
EXPLANATION = ("Coq theorems for every sequence of initialize/finalize/use operations about the registration and teardown "
               "bookkeeping, over the table extracted from the sources on every run; thread exit, descriptor and byte-exact "
               "leak freedom are measured on the real runtime (every cycle of every run), not proved.")

WORKLOADS = ["spawn", "feb", "syncvar", "sinc", "qpool", "lfq", "dq", "dict", "qarray", "barrier", "io"]
# which translation unit's lazily initialised / proxy-owning subsystem a workload touches (qdqueue is built on qlfqueue)
WL_TU = {"lfq": "ds/qlfqueue.c", "dq": "ds/qlfqueue.c", "dict": "ds/dictionary/dictionary_shavit.c", "qarray": "ds/qarray.c",
         "barrier": "barrier/feb.c", "io": "io.c"}
SOURCES = ["c19_lifecycle.c", "c19_ledger.c", "c19_wb_qlfqueue.c", "c19_wb_io.c", "c19_wb_dict.c", "c19_wb_barrier.c"]
# the listed exceptions of Properties_C19.table_is_expected, by name (one-time allocations that survive finalize)
EXPECTED_UNREGISTERED = {"hash_entry_pool", "workunit_pool", "chunk_distribution_tracker"}
EXCLUDE = ["qthread.c", "ds/qlfqueue.c", "io.c", "ds/dictionary/dictionary_shavit.c", "barrier/feb.c"]


def rows_of_workload(rows, w):
    tu = WL_TU.get(w)
    if not tu:
        return []
    ids = [k for k, r in enumerate(rows) if r["tu"] == tu and (r["lazy"] or r["io"])]
    return ids


def parse_kv(line):
    return dict(p.split("=", 1) for p in line.split()[1:] if "=" in p)


def parse_run(out):
    """-> baseline dict, list of cycles {Y, G, N, Z}, timeout phase or None, ended?"""
    base, cycles, cur, tmo, ended = None, [], None, None, False
    for l in out:
        if l.startswith("B "):
            base = parse_kv(l)
        elif l.startswith("Y "):
            cur = {"Y": parse_kv(l)}
            cycles.append(cur)
        elif l.startswith("G ") and cur is not None:
            kv = parse_kv(l)
            cur["G"] = {st: [x.split(":") for x in kv.get(st, "").split(",") if x] for st in ("early", "normal", "late")}
        elif l.startswith("N ") and cur is not None:
            cur["N"] = [tuple(map(int, x.split(":"))) for x in parse_kv(l).get("ran", "").split(",") if x]
        elif l.startswith("Z ") and cur is not None:
            cur["Z"] = parse_kv(l)
        elif l.startswith("TIMEOUT"):
            tmo = l
        elif l.startswith("END"):
            ended = True
    return base, cycles, tmo, ended


def parse_model(lines):
    res = []
    for l in lines:
        if l.startswith("D "):
            kv = parse_kv(l)
            d = {}
            for k, v in kv.items():
                if v.startswith("["):
                    d[k] = [int(x) for x in v[1:-1].split(",") if x]
                elif v in ("true", "false"):
                    d[k] = v == "true"
                else:
                    d[k] = int(v)
            res.append(d)
    return res


def gen_scenarios(rng, tier):
    quick = tier == "quick"
    sc = []
    allw = ",".join(WORKLOADS)
    # corpus: the three repaired defects as regression workloads + everything at once + redundant calls
    sc.append(dict(name="corpus-lfq-reinit", cfg=(2, 2), cycles=[(["lfq"], "")] * 3))
    sc.append(dict(name="corpus-io-reinit", cfg=(1, 1), cycles=[(["io"], "")] * 3))
    sc.append(dict(name="corpus-atexit-cycles", cfg=(1, 1), cycles=[([], "")] * (36 if quick else 70)))
    sc.append(dict(name="corpus-all", cfg=(2, 2), cycles=[(list(WORKLOADS), "ri rf")] * 4))
    sc.append(dict(name="corpus-dict-barrier", cfg=(3, 1), cycles=[(["dict", "barrier"], "rf"), (["dict"], ""), (["barrier", "qarray"], "ri"), (["dict", "barrier", "qarray"], "")]))
    # workers that are inactive when finalize runs: created inactive (QT_HWPAR leaves a remainder: the last worker(s) of the
    # grid start disabled) or disabled by the program (flag dw: qthread_disable_worker of a worker with index >= 1); finalize
    # must wake them so that they exit ("for every shepherd/worker configuration")
    sc.append(dict(name="corpus-hwpar-remainder-4x2-7", cfg=(4, 2), env={"QT_HWPAR": 7}, cycles=[([], ""), (["spawn", "feb"], ""), ([], "ri")]))
    sc.append(dict(name="corpus-hwpar-remainder-2x3-5", cfg=(2, 3), env={"QT_HWPAR": 5}, cycles=[(["spawn"], ""), (["sinc", "qpool"], "rf")]))
    sc.append(dict(name="corpus-disable-worker-2x2", cfg=(2, 2), cycles=[(["spawn"], "dw"), (["feb", "sinc"], "dw"), ([], "dw")]))
    sc.append(dict(name="corpus-disable-worker-1x3", cfg=(1, 3), cycles=[(["spawn", "qpool"], "dw"), ([], "")]))
    configs = [(1, 1), (2, 1), (2, 2), (4, 1)] if quick else [(1, 1), (1, 3), (2, 1), (2, 2), (3, 2), (4, 1), (4, 2), (8, 1)]
    for cfg in configs:
        for rep in range(1 if quick else 2):
            n = rng.range(4, 6)
            cyc = []
            for k in range(n):
                ws = [w for w in WORKLOADS if rng.chance(2, 5)]
                if k == n - 1 and n >= 5:
                    ws = list(cyc[-1][0])             # a repeated cycle: nothing is used for the first time
                fl = " ".join(f for f in ("ri", "rf") if rng.chance(1, 3))
                cyc.append((ws, fl))
            sc.append(dict(name="random-%dx%d-%d" % (cfg[0], cfg[1], rep), cfg=cfg, cycles=cyc,
                           stack=rng.choice([65536, 65536, 131072, 32768])))
    return sc


def confirm_growth(exe, sc, ws, fl):
    """same configuration, the cycle (ws, fl) seven times in a fresh process: does the ledger keep growing?"""
    ns, nw = sc["cfg"]
    lines = ["C %s %s" % (",".join(ws) if ws else "none", fl)] * 7
    env = core.qenv(ns, nw, stack=sc.get("stack", 65536), **sc.get("env", {}))
    rc, out, err = core.run_lines(exe, lines, timeout=180 + 3 * len(lines), env=env)
    base, cycles, tmo, ended = parse_run(out)
    led = [int(c["Z"]["ledger_bytes"]) for c in cycles if "Z" in c]
    if len(led) < 7:
        return {"confirmed": True, "ledger": "confirmation run did not complete: %s" % (tmo or rc)}
    steps = [led[k + 1] - led[k] for k in range(2, 6)]          # transitions 3->4 ... 6->7
    return {"confirmed": sum(1 for d in steps if d > 64) >= 3, "ledger": led}


def run(ctx):
    rng = ctx.rng
    rows, facts, changed = c19_subsystems.regenerate()
    try:
        pr = ctx.coq_properties("Properties/Properties_C19.v")
        okx, logx = ctx.coq_make(["theories/Lifecycle/Extract.vo"])
    finally:
        if core.REPO != "/repo":
            try:
                c19_subsystems.regenerate("/repo")      # do not leave a scratch tree's table in the shared Coq tree
            except Exception:
                pass
    table_problems = []
    bad = [k for k, r in enumerate(rows) if not (r["registers"] and r["resets"])]
    for k in bad:
        r = rows[k]
        if not r["registers"] and r["resource"] not in EXPECTED_UNREGISTERED:
            table_problems.append("%s: static %s is created (%s) and never released" % (r["tu"], r["resource"], r["by"]))
        elif r["registers"] or not r["lazy"]:
            table_problems.append("%s: cleanup %s registered by %s: %s" % (r["tu"], r["fn"], r["by"], r["why"]))
    if facts["atexit_every_initialize"]:
        table_problems.append("qthread_initialize registers atexit(qthread_finalize) on every call")
    drv = None
    model_stale = False
    if okx:
        drv = ctx.model_driver("c19_driver")
        rc, tout, _ = core.run_lines(drv, ["T"], timeout=60)
        model_stale = not tout or ("rows=%d " % len(rows)) not in tout[0]
    exe = ctx.link("c19_lifecycle", SOURCES, exclude=EXCLUDE, cflags=["-no-pie"])
    rc, nmout, _ = core.sh(["nm", exe], timeout=60)
    sym = {}
    for l in nmout.splitlines():
        p = l.split()
        if len(p) == 3 and p[1] in "tT":
            sym.setdefault(int(p[0], 16), p[2])
    name_of = lambda a: sym.get(int(a, 16), a)
    fn_of_row = {k: r["fn"] for k, r in enumerate(rows)}

    scenarios = gen_scenarios(rng, ctx.tier)
    evals = 0
    nontrivial = 0
    oracle_fail = []
    mismatches = []
    samples = []
    hist = {}
    for sc in scenarios:
        ns, nw = sc["cfg"]
        lines = ["C %s %s" % (",".join(ws) if ws else "none", fl) for ws, fl in sc["cycles"]]
        env = core.qenv(ns, nw, stack=sc.get("stack", 65536), **sc.get("env", {}))
        rc, out, err = core.run_lines(exe, lines, timeout=180 + 3 * len(lines), env=env)
        base, cycles, tmo, ended = parse_run(out)
        case = dict(scenario=sc["name"], config=[ns, nw], stack=sc.get("stack", 65536), env=sc.get("env", {}),
                    cycles=[{"workloads": ws, "flags": fl} for ws, fl in sc["cycles"]])
        if base is None:
            raise core.BuildError("c19 harness did not start: rc=%s %s" % (rc, err[-400:]))
        b_thr, b_fd = int(base["threads"]), int(base["fds"])
        # ---- model on the same script
        mcmds = ["X"]
        for ws, fl in sc["cycles"]:
            mcmds.append("I %d" % (ns * nw))
            for w in ws:
                for rid in rows_of_workload(rows, w):
                    mcmds.append("U %d" % rid)
            mcmds += ["D", "F 1", "D"]
        mstates = parse_model(core.run_lines(drv, mcmds, timeout=120)[1]) if drv else []
        used_so_far = set()
        prev = None
        for k, (ws, fl) in enumerate(sc["cycles"]):
            cyc = k + 1
            c2 = dict(case, failing_cycle=cyc)
            if k >= len(cycles) or "Z" not in cycles[k]:
                why = "cycle %d (%s) did not complete: %s" % (cyc, ",".join(ws) or "none", tmo or ("rc=%s %s" % (rc, err[-200:])))
                oracle_fail.append((why, c2))
                mismatches.append(("hang-or-crash", c2))
                break
            Y, G, N, Z = cycles[k]["Y"], cycles[k]["G"], cycles[k]["N"], cycles[k]["Z"]
            evals += 1
            for w in ws:
                hist[w] = hist.get(w, 0) + 1
            if cyc >= 2 and len(ws) >= 2:
                nontrivial += 1
            # ---------------- the property on the measurements
            probs = []
            if int(Z["threads"]) != b_thr:
                probs.append("%d OS threads after finalize, %d before the first initialize" % (int(Z["threads"]), b_thr))
            if int(Z["fds"]) != b_fd:
                probs.append("%d open descriptors after finalize, %d before the first initialize" % (int(Z["fds"]), b_fd))
            nact = int(sc.get("env", {}).get("QT_HWPAR", ns * nw))      # qthread_num_workers() counts the ACTIVE workers
            if "dw" in fl.split() and nw >= 2:
                nact -= 1                                               # the harness disabled one before it sampled
            if (int(Y["sheps"]), int(Y["workers"])) != (ns, nact):
                probs.append("incarnation %d has %s shepherds / %s workers, configured %d / %d" % (cyc, Y["sheps"], Y["workers"], ns, nact))
            if int(Y["threads_run"]) - b_thr != ns * nw - 1:
                probs.append("%d worker threads after initialize, expected %d" % (int(Y["threads_run"]) - b_thr, ns * nw - 1))
            if Y["smoke"] != "1" or Y["wl_bad"] != "-":
                probs.append("workload wrong in incarnation %d: %s" % (cyc, "smoke" if Y["smoke"] != "1" else Y["wl_bad"]))
            if Y["ri_ok"] != "1":
                why = int(Y.get("ri_why", "0"))
                probs.append("a redundant qthread_initialize changed the runtime: " + ", ".join(
                    n for b, n in ((1, "error return"), (2, "the call allocated memory"), (4, "qlib replaced"), (8, "new OS threads"),
                                   (16, "another atexit registration"), (32, "shepherd/worker counts changed")) if why & b))
            if Y["rf_ok"] != "1" or Z["post_ok"] != "1":
                probs.append("a redundant qthread_finalize (task / foreign pthread / after finalize) was not harmless")
            if Z["lists_empty"] != "1" or Z["qlib_null"] != "1":
                probs.append("after finalize: cleanup lists empty=%s qlib NULL=%s" % (Z["lists_empty"], Z["qlib_null"]))
            if int(Z["atexit_calls"]) > 1:
                probs.append("atexit(qthread_finalize) registered %s times after %d cycles" % (Z["atexit_calls"], cyc))
            if Z["io_workers"] != "0":
                probs.append("%s blocking-call proxy threads left after finalize" % Z["io_workers"])
            ran_names = [name_of(dict((int(i), a) for st in G.values() for i, a in st)[idx]) for idx, _ in N]
            reg_all = [name_of(a) for st in ("early", "normal", "late") for _, a in G[st]]
            if sorted(ran_names) != sorted(reg_all) or len(set(ran_names)) != len(ran_names):
                probs.append("registered cleanups %s, run %s" % (reg_all, ran_names))
            n_early = len(G["early"])
            for pos, (idx, thr) in enumerate(N):
                if pos >= n_early and thr != b_thr and "io" not in ws:      # a detached proxy thread may still be exiting
                    probs.append("cleanup %s ran while %d runtime threads were still alive" % (ran_names[pos], thr - b_thr))
                    break
            new_use = bool(set(ws) - used_so_far)
            if prev is not None and cyc >= 3 and not new_use:
                grow = int(Z["ledger_bytes"]) - int(prev["ledger_bytes"])
                if grow > 256:
                    # A leak grows on EVERY repetition; a one-time allocation (e.g. glibc keeps the stack and TLS block of
                    # a thread it has cached: one more simultaneously live thread than ever before costs a few hundred
                    # bytes once) does not.  Confirm by running the same cycle six more times in a fresh process.
                    conf = confirm_growth(exe, sc, ws, fl)
                    if conf["confirmed"]:
                        probs.append("live heap (interposed malloc ledger) grew by %d bytes from cycle %d to %d with no subsystem used for the first time"
                                     " (confirmed: it keeps growing over identical cycles: %s)" % (grow, cyc - 1, cyc, conf["ledger"]))
                    else:
                        ctx.notes.append("scenario %s: the ledger grew once by %d bytes from cycle %d to %d and did not keep growing over six "
                                         "identical cycles (%s): one-time allocation, not a leak" % (sc["name"], grow, cyc - 1, cyc, conf["ledger"]))
                if int(Z["uordblks"]) - int(prev["uordblks"]) > 262144:
                    probs.append("mallinfo2 in-use bytes grew by %d from cycle %d to %d" % (int(Z["uordblks"]) - int(prev["uordblks"]), cyc - 1, cyc))
            used_so_far |= set(ws)
            prev = Z
            for p in probs:
                oracle_fail.append((p, c2))
            # ---------------- correspondence with the model
            if 2 * k + 1 < len(mstates):
                pre, post = mstates[2 * k], mstates[2 * k + 1]
                for st in ("early", "normal", "late"):
                    mi = [fn_of_row.get(i, "?") for i in pre[st]]
                    ii = [name_of(a) for _, a in G[st]]
                    if mi != ii:
                        mismatches.append(("registered-%s" % st, dict(c2, model=mi, impl=ii)))
                mran = [fn_of_row.get(i, "?") for i in post["ran"]]
                if mran != ran_names:
                    mismatches.append(("cleanup-order", dict(c2, model=mran, impl=ran_names)))
                if pre["threads"] != int(Y["threads_run"]) - b_thr or post["threads"] != int(Z["threads"]) - b_thr:
                    mismatches.append(("threads", dict(c2, model=[pre["threads"], post["threads"]], impl=[Y["threads_run"], Z["threads"]])))
                for w, key in (("lfq", "lfq_pool"), ("dict", "dict_pool"), ("barrier", "barrier_pool")):
                    rid = [i for i in rows_of_workload(rows, w)]
                    if rid and (Z[key] == "1") != (rid[0] in post["created"]):
                        mismatches.append(("static-" + key, dict(c2, model=rid[0] in post["created"], impl=Z[key])))
                if post["fault"]:
                    mismatches.append(("model-predicts-fault", c2))
                if post["atexits"] != int(Z["atexit_calls"]):
                    mismatches.append(("atexit-count", dict(c2, model=post["atexits"], impl=Z["atexit_calls"])))
            elif drv:
                mismatches.append(("model-driver-short", c2))
            if len(samples) < 3 and cyc >= 2 and len(ws) >= 3:
                samples.append(dict(scenario=sc["name"], config=[ns, nw], cycle=cyc, workloads=ws, registered=reg_all, ran=ran_names,
                                    after=dict(threads=Z["threads"], fds=Z["fds"], ledger_bytes=Z["ledger_bytes"], uordblks=Z["uordblks"])))
    ctx.cov.update(evaluations=evals, distinct_nontrivial=nontrivial,
                   rule="one evaluation = one initialize/workload/finalize cycle on the real runtime; non-trivial = cycle >= 2 of its process with >= 2 subsystems used",
                   samples=samples, traces_validated_against_impl=evals, input_distribution=hist,
                   configs=sorted(set(tuple(s["cfg"]) for s in scenarios)), scenarios=len(scenarios),
                   correspondence_mismatches=len(mismatches),
                   table=dict(rows=[dict(id=k, tu=r["tu"], by=r["by"], stage=r["stage"], cleanup=r["fn"], lazy=r["lazy"], registers=r["registers"],
                                         resets=r["resets"], note=r["why"]) for k, r in enumerate(rows)],
                              exceptions=bad, regenerated=changed, facts=facts))
    ctx.assumptions += ["the model covers registration/teardown bookkeeping; thread exit, descriptors and heap are measured, not proved",
                        "same configuration in every incarnation of one process (the property's proviso)",
                        "one-time allocations are tolerated: the ledger is compared between consecutive cycles only when no subsystem is used for the first time",
                        "mallinfo2().uordblks includes libc-internal bookkeeping (it grows by a few KB per cycle even for an empty workload); only gross growth is flagged, the interposed ledger is the exact measure"]
    ctx.notes.append("listed exceptions (rows that never register a cleanup: one-time allocation surviving finalize): " +
                     "; ".join("%s %s" % (rows[k]["tu"], rows[k]["resource"]) for k in bad if not rows[k]["registers"]))
    _c19_shutdown.run_shutdown(ctx, ctx.tier == "quick")      # extension U (own theorems, harness, verdicts)
    broken_proof = not pr["ok"] or not okx or model_stale
    broken = broken_proof or bool(mismatches)
    if not broken:
        for why, case in oracle_fail[:3]:
            ctx.violation("unlisted:" + re.sub(r"[^a-z]+", "-", why.lower())[:30], why, case)
        return
    if broken_proof:
        what = "the registration table read from the sources is not the one the theorems cover (table_is_expected): " + \
               ("; ".join(table_problems[:3]) if table_problems else "Properties_C19.v no longer checks")
    else:
        what = "correspondence lifecycle model / real runtime broken (%d cycles): %s" % (len(mismatches), mismatches[0][0])
    if oracle_fail:
        why, case = oracle_fail[0]
        ctx.violation("broken+input", what + "; failing workload: " + why,
                      {"failing_input": case, "reason": why, "table_problems": table_problems,
                       "first_mismatch": mismatches[0] if mismatches else None, "coq_log": pr["log"][-1500:]})
    else:
        ctx.violation("broken", what, {"theorem_or_correspondence": "Lifecycle.Theorems / table_is_expected" if broken_proof else "impl != Lifecycle.Model",
                                       "table_problems": table_problems, "first_mismatch": mismatches[0] if mismatches else None,
                                       "coq_log": pr["log"][-1500:]}, no_input=True)


def replay(ctx, path):
    j = json.load(open(path))
    print(json.dumps(j, indent=1)[:3000])
    case = j.get("replay", {}).get("failing_input") or j.get("replay", {})
    if not isinstance(case, dict) or "cycles" not in case:
        return run(ctx)
    exe = ctx.link("c19_lifecycle", SOURCES, exclude=EXCLUDE, cflags=["-no-pie"])
    ns, nw = case["config"]
    lines = ["C %s %s" % (",".join(c["workloads"]) if c["workloads"] else "none", c["flags"]) for c in case["cycles"]]
    rc, out, err = core.run_lines(exe, lines, timeout=300, env=core.qenv(ns, nw, stack=case.get("stack", 65536), **case.get("env", {})))
    print("\n".join(out[-12:]))
    base, cycles, tmo, ended = parse_run(out)
    if tmo or not ended:
        ctx.violation("replay", "the scenario does not complete: %s" % (tmo or "rc=%s" % rc), case)
