"""C10 extension S: the lifecycle entry points of the donecount sinc -- qt_sinc_resize, qt_sinc_reset at any moment,
qt_sinc_fini / qt_sinc_destroy (every free a step), qt_sinc_init on caller storage versus qt_sinc_create, qt_sinc_tmpdata.
Model: coq/theories/Sinc/Extra.v around Sinc/Model.v (extracted: ocaml/c10extra_driver.ml); theorems:
Properties_C10_extra.v; real code: harness/c/c10_extra.c (white-box TU of src/sincs/donecount.c, frees deferred and recorded
so that a use after free is counted instead of crashing).
Tie: M3 -- the baton protocol of c10_sinc.c with one more thread (the lifecycle thread); after every granted access both
sides print who, which access, counter, ready, result, slots (or "-" once rdata is NULL), every position, the number of
accesses to freed memory, the freed flags, delivered values.  M1 for qt_sinc_tmpdata (tasks on every shepherd)."""
import re
import time
from .. import core

PREF = 1024
OPNAMES = ["add8", "max8", "xor8", "min8", "add64"]
RESIZE_SIG = "resize-leaves-ready-full"
RESET0_SIG = "reset-zero-on-incomplete-sinc-leaves-ready-empty"
M64 = 2 ** 64


def ident(opk, size):
    return ("ff" if opk == 3 else "00") * size


def pyop(opk, a, b):
    if opk == 4:
        x = (int.from_bytes(a, "little") + int.from_bytes(b, "little")) & (M64 - 1)
        return x.to_bytes(8, "little")
    f = [lambda x, y: (x + y) & 255, max, lambda x, y: x ^ y, min][opk]
    return bytes(f(x, y) for x, y in zip(a, b))


def rand_val(rng, size):
    k = rng.below(6)
    if k == 0:
        return "00" * size
    if k == 1:
        return "ff" * size
    return "".join("%02x" % rng.below(256) for _ in range(size))


def optok(o, slot=None):
    if o[0] == "s":
        return "s:%s" % o[1] + ("" if slot is None else ":%d" % slot)
    if o[0] == "n":
        return "n" + ("" if slot is None else ":0")
    if o[0] == "e":
        return "e:%d" % o[1]
    return o[0]


def ctok(o):
    return o[0] if o[0] in "fd" else "%s:%d" % (o[0], o[1])


def sess(stor, hd, size, opk, c0, progs, script, sched, kind, init=None):
    return dict(stor=stor, hd=hd, size=size if hd else 0, opk=opk if hd else 0, init=(init if init is not None else ident(opk, size)) if hd else "",
                c0=c0, progs=progs, script=script, sched=sched, kind=kind)


def vals8(j):
    return "%02x00000000000000" % (j + 1) if j < 200 else "0000%02x0000000000" % (j - 199)


# ---------------------------------------------------------------- generators
def directed(full):
    """directed sessions: the lifecycle thread is id N (the last); schedule entry 0 = lowest-numbered runnable thread, so
    `[0] * t + [(N + 1) * PREF] * k + [0] * 300` lets the participants perform t accesses, then the lifecycle thread k, then
    the participants run on (the lifecycle thread whenever nobody else can run)."""
    out = []
    V = vals8
    for hd in (1, 0):
        def s(j):
            return ("s", V(j)) if hd else ("n",)
        # --- reset after 0 / some / all submissions, n = 0 and n > 0, with blocked waiters, complete and incomplete
        progs = [[("w",)], [s(0), s(1)], [s(2), ("v",)]]
        N = len(progs)
        total = 14 if hd else 8
        for n in ((0, 1, 3) if full else (0, 2)):
            for t in (range(0, total + 1) if full else (0, 2, 3, 5, total)):
                out.append(sess("h" if (t + n) % 2 else "c", hd, 8, 4, 3, progs, [("z", n)], [0] * t + [(N + 1) * PREF] + [0] * 300, "reset@%d" % t))
        # complete generation, reset n, second generation by the same participants
        progs = [[s(0), ("w",), s(3), ("w",)], [s(1), ("w",), ("w",)], [("w",), s(4), ("w",)]]
        for n in (0, 2, 3):
            for t in ((12, 16, 30) if full else (30,)):
                out.append(sess("h", hd, 8, 4, 2, progs, [("z", n)], [0] * t + [4 * PREF] + [0] * 300, "reset-complete"))
        # --- resize on a complete sinc (count 0, ready full), then submissions; waits before/after
        for d in ((0, 1, 2, 3) if full else (0, 2)):
            progs = [[("w",)]] + [[s(j)] for j in range(d)] + [[("v",), ("w",)]]
            N = len(progs)
            for t in ((0, 1, 2) if full else (0, 1)):
                out.append(sess("c" if d % 2 else "h", hd, 8, 4, 0, progs, [("r", d)], [0] * t + [(N + 1) * PREF] * 2 + [0] * 300, "resize-complete"))
                out.append(sess("h", hd, 8, 4, 0, progs, [("r", d)], [0] * t + [(N + 1) * PREF] * 2 + [N * PREF] * 300, "resize-complete"))
        # resize after a generation completed; resize that wraps the count to zero on an incomplete sinc (fill branch)
        out.append(sess("h", hd, 8, 4, 2, [[s(0), ("w",), s(2)], [s(1), ("w",), s(3), ("w",)]], [("r", 2)], [0] * 11 + [3 * PREF] * 2 + [0] * 300, "resize-after-generation"))
        out.append(sess("h", hd, 8, 4, 2, [[("w",)], [s(0)]], [("r", M64 - 2)], [0] * 2 + [3 * PREF] * 2 + [0] * 300, "resize-wrap"))
        out.append(sess("h", hd, 8, 4, 2, [[("w",)], [s(0)]], [("r", M64 - 1)], [0] * 3 + [3 * PREF] * 2 + [0] * 300, "resize-wrap"))
        # --- fini / destroy: quiescent, with blocked waiters, with a waiter about to read
        for op in ("f", "d"):
            for stor in ("h", "c"):
                if op == "d" and stor == "c":
                    continue
                out.append(sess(stor, hd, 8, 4, 0, [], [(op,)], [0], "fini-quiescent"))
                out.append(sess(stor, hd, 8, 4, 1, [[s(0), ("w",)], [("w",)]], [(op,)], [0] * 300, "fini-after-completion"))
                out.append(sess(stor, hd, 8, 4, 2, [[("w",)], [("v",)], [("w",)]], [(op,)], [0] * 300, "fini-blocked-waiters"))
                out.append(sess(stor, hd, 8, 4, 2, [[("w",)], [("v",)], [("w",)]], [(op,)], [0] * 2 + [4 * PREF] * 3 + [0] * 300, "fini-blocked-waiters"))
                if op == "f":
                    out.append(sess(stor, hd, 8, 4, 2, [[("w",), ("w",)], [("v",), ("v",)]], [(op,), ("z", 0)], [3 * PREF] * 2 + [0] * 300, "fini-waiter-about-to-read"))
        # the race the XXX comment in qt_sinc_wait admits (outside the contract): a waiter past its readFF when fini frees
        if hd:
            out.append(sess("h", 1, 8, 4, 0, [[("w",)]], [("f",)], [1 * PREF, 2 * PREF, 1 * PREF] + [0] * 50, "fini-copy-in-flight"))
            out.append(sess("h", 1, 8, 4, 1, [[("s", V(0))], [("w",)]], [("d",)], [1 * PREF] * 3 + [3 * PREF] * 2 + [0] * 50, "destroy-collate-in-flight"))
    return out


def gen_sched(rng, n, length):
    kind = rng.weighted([("uniform", 5), ("low", 1), ("high", 1), ("streak", 5), ("life-late", 3), ("life-early", 1)])
    L = rng.range(8, length)
    if kind == "uniform":
        return kind, [rng.below(840) for _ in range(L)]
    if kind == "low":
        return kind, [0]
    if kind == "high":
        return kind, [839]
    if kind == "life-late":
        t = rng.range(0, L)
        return kind, [rng.below(n - 1) if n > 1 else 0 for _ in range(t)] + [n * PREF] * rng.range(1, 5) + [0] * 300
    if kind == "life-early":
        return kind, [n * PREF] * rng.range(1, 6) + [rng.below(840) for _ in range(L)]
    out = []
    while len(out) < L:
        t = rng.below(n)
        for _ in range(rng.range(1, 10)):
            out.append((t + 1) * PREF + rng.below(840))
    return kind, out


def gen_random(rng, small):
    hd = 0 if rng.chance(1, 4) else 1
    size = rng.choice([1, 2, 4, 8, 8, 8] if small else [1, 2, 3, 4, 8, 8, 8, 16, 24, 64]) if hd else 0
    opk = rng.below(4) if hd else 0
    if hd and size == 8 and rng.chance(1, 2):
        opk = 4
    nthr = rng.range(1, 5)
    c0 = rng.weighted([(0, 2), (1, 3), (2, 3), (3, 2), (5, 1)])
    progs = [[] for _ in range(nthr)]

    def sub():
        return ("s", rand_val(rng, size)) if hd and rng.chance(9, 10) else ("n",)
    for _ in range(c0):
        progs[rng.below(nthr)].append(sub())
    nw = rng.range(1, 3)
    for _ in range(nw):
        w = ("w",) if rng.chance(3, 4) else ("v",)
        t = rng.below(nthr)
        if rng.chance(2, 3):
            progs[t].append(w)
        else:
            progs[t].insert(0, w)
    # second round (meaningful after a reset / resize)
    k2 = rng.range(0, 3)
    for _ in range(k2):
        progs[rng.below(nthr)].append(sub())
    if k2 and rng.chance(1, 2):
        progs[rng.below(nthr)].append(("w",))
    if rng.chance(1, 6):
        t = rng.below(nthr)
        progs[t].insert(rng.below(len(progs[t]) + 1), ("e", rng.range(0, 2)))
    stor = rng.choice(["h", "c"])
    script = []
    for _ in range(rng.weighted([(1, 6), (2, 3), (3, 1)])):
        k = rng.weighted([("z", 5), ("r", 4), ("f", 2), ("d", 1)])
        if k == "z":
            script.append(("z", rng.weighted([(0, 2), (1, 2), (2, 2), (k2, 3), (3, 1)])))
        elif k == "r":
            script.append(("r", rng.weighted([(0, 2), (1, 3), (2, 2), (k2, 3), (M64 - 1, 1), (M64 - c0, 1)]) % M64))
        elif k == "f":
            script.append(("f",))
        elif stor == "h":
            script.append(("d",))
            break
    nsteps = 12 * sum(len(p) for p in progs) + 16
    skind, sched = gen_sched(rng, nthr + 1, nsteps)
    return sess(stor, hd, size, opk, c0, progs, script, sched, "random:" + skind, init=ident(opk, size) if rng.chance(9, 10) else rand_val(rng, size))


# ---------------------------------------------------------------- running both sides
def impl_lines(s):
    out = ["S %s %d %d %d %s %d" % (s["stor"], s["hd"], s["size"], s["opk"], s["init"] or "-", s["c0"])]
    if s.get("tmpdata"):
        return out + ["M %d" % s["tmpdata"]]
    for p in s["progs"]:
        out.append("T " + " ".join(optok(o) for o in p))
    out.append("X " + " ".join(ctok(o) for o in s["script"]))
    out.append("R " + " ".join(map(str, s["sched"])))
    return out


def parse_impl(lines):
    r = dict(C=None, I=None, P=[], steps=[], end=None, warns=None, M=[], MR=None)
    for l in lines:
        if l.startswith("C "):
            r["C"] = l.split()
        elif l.startswith("I "):
            r["I"] = l
        elif l.startswith("P "):
            r["P"].append(tuple(map(int, l.split()[1:])))
        elif l.startswith("END") or l.startswith("TIMEOUT"):
            r["end"] = l
        elif l.startswith("W "):
            r["warns"] = int(l.split()[1])
        elif l.startswith("MR "):
            r["MR"] = l.split()[1]
        elif l.startswith("M "):
            r["M"].append(tuple(map(int, l.split()[1:])))
        elif l == "D":
            pass
        else:
            r["steps"].append(l)
    return r


def model_lines(s, r):
    C = r["C"]
    nsl = int(C[1]) * int(C[2])
    out = ["S %s %d %d %d %s %d %d" % (s["stor"], s["hd"], s["size"], s["opk"], s["init"] or "00", nsl, s["c0"])]
    slots = {}
    for (tid, slot, shep, worker) in r["P"]:
        slots.setdefault(tid, []).append(slot)
    for t, p in enumerate(s["progs"]):
        sl = list(slots.get(t, []))
        toks = []
        for o in p:
            if o[0] == "s":
                toks.append(optok(o, sl.pop(0) if sl else 0))
            elif o[0] == "n":
                toks.append("n:0")
            else:
                toks.append(optok(o))
        out.append("T " + " ".join(toks))
    out.append("X " + " ".join(ctok(o) for o in s["script"]))
    out.append("R " + " ".join(map(str, s["sched"])))
    return out


def _run_chunk(exe, sessions_lines, env, watchdog):
    flat = [l for s in sessions_lines for l in s]
    rc, out, err = core.run_lines(exe, flat + ["Q"], timeout=watchdog * 2 + 120, env=dict(env, VERIF_WATCHDOG=str(watchdog)))
    if not out or not out[0].startswith("H "):
        raise core.BuildError("c10_extra harness did not start: rc=%s %s" % (rc, err[-500:]))
    results, cur = [], []
    for l in out[1:]:
        cur.append(l)
        if l == "D" or l.startswith("TIMEOUT"):
            results.append(cur); cur = []
            if l.startswith("TIMEOUT"):
                return results
    if len(results) < len(sessions_lines) and (cur or rc != 0):
        results.append(cur + ["TIMEOUT rc=%s %s" % (rc, err.strip()[-200:])])
    return results


def run_impl(exe, sessions_lines, env, budget_s, notes, watchdog, chunk=25):
    t0 = time.time()
    results = [None] * len(sessions_lines)
    i = 0
    hangs = 0
    while i < len(sessions_lines) and hangs < 2 and time.time() - t0 < budget_s:
        part = _run_chunk(exe, sessions_lines[i:i + chunk], env, watchdog)
        if not part:
            results[i] = ["TIMEOUT no output"]
            i += 1
            hangs += 1
            continue
        for r in part:
            if r[-1].startswith("TIMEOUT"):
                again = _run_chunk(exe, [sessions_lines[i]], env, 3 * watchdog)
                if again and not again[0][-1].startswith("TIMEOUT"):
                    notes.append("extra: session '%s' hit the %d s watchdog once and completed when re-run alone (loaded machine)" % (sessions_lines[i][0][:60], watchdog))
                    r = again[0]
                else:
                    hangs += 1
            results[i] = r
            i += 1
    return results


# ---------------------------------------------------------------- the property on the implementation's own trace
def parse_step(l):
    head, _, rest = l.partition(" | ")
    f = head.split()
    st, _, ws = rest.partition(" ; ")
    sf = st.split()
    u = int(sf[-2][2:])
    return dict(tid=int(f[0]), kind=f[1], counter=int(f[2]), ready=f[3] == "1", res=f[4], slots=f[5], states=sf[:-3], life=sf[-3], uaf=u, flags=sf[-1][2:],
                W=[w.partition("=") for w in ws.split(" ; ")] if ws else [])


def first_state(s, prog):
    for o in prog:
        if o[0] == "s":
            return "Slot" if s["hd"] else "Dec"
        if o[0] == "n":
            return "Dec"
        if o[0] == "e":
            if o[1]:
                return "Add"
            continue
        return "Read"
    return "Idle"


def oracle(s, r):
    """returns (reason, signature-or-None) or None.  Conservative: anything that leaves the contract of C10 (expect at zero,
    over-submission, a reset / fini issued while a submission, collation or copy is in flight, a resize) switches the
    value / counting checks off for the rest of the session."""
    if r["C"] is None:
        return ("no output for the session (crash or hang in qt_sinc_create / qt_sinc_init)", None)
    nsheps, wps = int(r["C"][1]), int(r["C"][2])
    for (tid, slot, shep, worker) in r["P"]:
        if not (0 <= shep < nsheps and 0 <= worker < wps and slot == shep * wps + worker):
            return ("submit of participant %d used slot %d although it ran on shepherd %d worker %d (of %dx%d)" % (tid, slot, shep, worker, nsheps, wps), None)
    end = r["end"] or "TIMEOUT"
    if end.startswith("TIMEOUT"):
        return ("participants never became quiescent (watchdog, reproduced with 3x the time)", None)
    N = len(s["progs"])
    opk, size = s["opk"], s["size"]
    isid = s["hd"] and s["init"] == ident(opk, size)
    I = r["I"].split()
    counter, ready = int(I[1]), I[2] == "1"
    states = None
    c0, adds, decs, began = s["c0"], 0, 0, 0
    proviso = True
    resized = False
    vals = []
    cur = {}
    ptr = {t: 0 for t in range(N)}
    script = list(s["script"])
    si = 0
    fini_clean = None          # were all participants idle / blocked / about to block when fini or destroy began?
    note = None
    prev_states, prev_ready = [first_state(s, q) for q in s["progs"]], ready
    for l in r["steps"]:
        st = parse_step(l)
        tid, kind, cnt = st["tid"], st["kind"], st["counter"]
        inflight = any(cur.get(t) for t in cur) or any(x in ("C0", "Fill", "Copy", "Empty") or x.startswith("Col") for x in prev_states[:N])
        if tid < N and kind in ("Slot", "Dec"):
            owed = cur.get(tid)
            if not owed or kind not in owed:
                if began >= c0 + adds:
                    proviso = False
                began += 1
                p = s["progs"][tid]
                while ptr[tid] < len(p) and p[ptr[tid]][0] not in "sn":
                    ptr[tid] += 1
                op = p[ptr[tid]] if ptr[tid] < len(p) else ("n",)
                ptr[tid] += 1
                if op[0] == "s":
                    vals.append(bytes.fromhex(op[1]))
                    owed = {"Slot", "Dec"}
                else:
                    owed = {"Dec"}
                if kind not in owed:
                    owed = {kind}
            cur[tid] = set(owed) - {kind}
            if kind == "Dec":
                decs += 1
        elif tid < N and kind == "Add":
            if counter == 0:
                proviso = False
            adds += (cnt - counter) % M64
        elif tid == N:
            if kind == "Reset":
                n = script[si][1] if si < len(script) and script[si][0] == "z" else None
                si += 1
                if n is None or cnt != n:
                    return ("qt_sinc_reset(%s) left the counter at %d" % (n, cnt), None)
                if n != 0 and st["ready"]:
                    return ("qt_sinc_reset(%d) left ready full: a wait passes with %d submissions expected" % (n, n), None)
                if n == 0 and not st["ready"] and prev_ready is False:
                    note = ("qt_sinc_reset(s, 0) on an incomplete sinc left ready empty", RESET0_SIG)
                if n == 0 and not st["ready"] and prev_ready:
                    return ("qt_sinc_reset(0) emptied ready on a complete sinc", None)
                if st["res"] != "-":
                    if st["res"] != s["init"] or any(x != s["init"] for x in st["slots"].split(",")):
                        return ("qt_sinc_reset did not restore result and every slot to the initial value", None)
                if inflight or any(x not in ("Idle", "Blk", "Read") for x in prev_states[:N]):
                    proviso = False          # reset while somebody is inside submit / collate / copy: outside the contract
                if n == 0 and not st["ready"]:
                    proviso = False
                c0, adds, decs, began, vals, cur = n, 0, 0, 0, [], {}
            elif kind == "RAdd":
                d = script[si][1] if si < len(script) and script[si][0] == "r" else None
                if d is None or cnt != (counter + d) % M64:
                    return ("qt_sinc_resize(%s) changed the counter from %d to %d" % (d, counter, cnt), None)
                if st["ready"] != prev_ready:
                    return ("qt_sinc_resize changed ready in its fetch-add step", None)
                if cnt != 0:
                    si += 1
                    if st["life"] == "RFill":
                        return ("qt_sinc_resize goes on to fill ready although the new count is %d" % cnt, None)
                elif st["life"] != "RFill":
                    return ("qt_sinc_resize(%d) brought the count to zero and did not fill ready" % d, None)
                resized = True
                proviso = False
            elif kind == "RFill":
                si += 1
                if not st["ready"]:
                    return ("the fill of qt_sinc_resize left ready empty", None)
            elif kind in ("FreeI", "FreeV", "FreeR", "FFill", "FreeS"):
                cop = script[si][0] if si < len(script) else "?"
                if fini_clean is None:
                    # destroy: a participant that has not yet reached its readFF may touch the freed structure later
                    fini_clean = all(x in ("Idle", "Blk") or (x == "Read" and not prev_ready and cop == "f") for x in prev_states[:N])
                    if cop == "d":          # ... and nobody may have anything left to do after the wait it is blocked in
                        fini_clean = fini_clean and all(sum(1 for o in q if o[0] in "wv") <= 1 and (not q or q[-1][0] in "wv") for q in s["progs"])
                if kind == "FFill":
                    if not st["ready"]:
                        return ("the fill of qt_sinc_fini left ready empty", None)
                    if any(x == "Blk" for x in st["states"][:N]):
                        return ("qt_sinc_fini filled ready and a waiter is still blocked", None)
                    if cop == "f":
                        si += 1
                if kind == "FreeS":
                    si += 1
                proviso = False
        if st["uaf"] > 0 and fini_clean:
            return ("access to freed memory (%s by thread %d) although every participant was idle or blocked in qt_sinc_wait when "
                    "qt_sinc_%s began" % (kind, tid, "destroy" if "d" in [x[0] for x in script] else "fini"), None)
        for (who, _, val) in st["W"]:
            if fini_clean and val != "-" and st["flags"][0] == "1":
                return ("a wait released by qt_sinc_fini delivered %s from the freed result" % val, None)
            if proviso and not resized:
                if decs != c0 + adds:
                    return ("wait of participant %s returned after %d submissions, %d expected (count %d + expects %d)" % (who[1:], decs, c0 + adds, c0, adds), None)
                if val != "-" and isid:
                    exp = bytes.fromhex(s["init"])
                    for v in vals:
                        exp = pyop(opk, exp, v)
                    if val != exp.hex():
                        return ("wait of participant %s delivered %s, the %s-reduction of the %d submitted values is %s" % (who[1:], val, OPNAMES[opk], len(vals), exp.hex()), None)
            elif resized and cnt != 0 and st["ready"] and note is None:
                note = ("qt_sinc_resize(d > 0) on a complete sinc leaves ready full: a wait returned while the count is %d" % cnt, RESIZE_SIG)
        counter, prev_ready, prev_states = cnt, st["ready"], st["states"]
    return note


def oracle_tmp(s, r):
    if r["C"] is None or r["MR"] is None:
        return "tmpdata session produced no result (crash or hang)"
    nsheps, wps = int(r["C"][1]), int(r["C"][2])
    seen = {}
    for (shep, worker, null, tslot, off, sslot) in r["M"]:
        if not s["hd"]:
            if not null:
                return "qt_sinc_tmpdata of a void sinc returned a non-NULL pointer"
            continue
        if null:
            return "qt_sinc_tmpdata returned NULL on a sinc with values"
        if not (0 <= shep < nsheps and 0 <= worker < wps) or tslot != shep * wps + worker:
            return "qt_sinc_tmpdata on shepherd %d worker %d (of %dx%d) points at slot %d (offset %d)" % (shep, worker, nsheps, wps, tslot, off)
        if sslot != tslot:
            return "qt_sinc_tmpdata points at slot %d, qt_sinc_submit of the same task updated slot %d" % (tslot, sslot)
        if seen.setdefault(tslot, (shep, worker)) != (shep, worker):
            return "two workers share slot %d" % tslot
    if s["hd"]:
        exp = bytes.fromhex(s["init"])
        for j in range(s["tmpdata"]):
            exp = pyop(s["opk"], exp, bytes([(j + 1) & 255] * s["size"]))
        if r["MR"] != exp.hex():
            return "wait delivered %s, the reduction of the %d submitted values is %s" % (r["MR"], s["tmpdata"], exp.hex())
    return None


def norm_slots(l, wps):
    """which worker of a shepherd runs a task is not controlled by the schedule: with several workers per shepherd two
    runs may place the same submission in different slots, so slots and the partially collated result are left out of the
    comparison of two implementation runs (counter, ready, positions, freed flags and delivered values remain)"""
    if wps == 1:
        return l
    f = l.split(" ")
    k = 4 if l.startswith("I ") else 5
    if len(f) > k:
        f[k - 1] = f[k] = "*"
    return re.sub(r"( ; W\d+=)[0-9a-f]+", r"\1*", " ".join(f))


# ---------------------------------------------------------------- entry point
def run_extra(ctx, quick):
    t_start = time.time()
    rng = ctx.rng.fork()
    pr = ctx.coq_properties("Properties/Properties_C10_extra.v")
    ok, log = ctx.coq_make(["theories/Sinc/ExtraExtract.vo"])
    if not ok:
        raise core.BuildError("Sinc/ExtraExtract.v does not compile:\n" + log[-2000:])
    exe = ctx.link("c10_extra", ["c10_extra.c"], exclude=["sincs/donecount.c"])
    drv = ctx.model_driver("c10extra_driver")
    if quick:
        configs = [((1, 1), 25, 5), ((1, 4), 15, 5), ((2, 2), 10, 8)]
    else:
        configs = [((1, 1), 600, 60), ((1, 4), 400, 60), ((2, 2), 150, 90), ((4, 1), 80, 60), ((3, 2), 60, 60)]
    evals = steps_total = skipped = tmp_points = 0
    hist = {}
    mismatches = []
    fails = []          # (signature or None, reason, case)
    uaf_sessions = 0
    pair_checked = 0
    samples = []
    for ci, ((ns, nw), nrand, budget) in enumerate(configs):
        r2 = rng.fork()
        small = ns > 1 or quick
        sessions = directed(full=(not quick) or ci == 0)
        # the same script on heap storage (create / destroy) and on caller storage (init / fini): the traces must be equal
        pairs = []
        for _ in range(3 if quick else 30):
            a = gen_random(r2, small)
            if any(o[0] == "d" for o in a["script"]):
                continue
            b = dict(a, stor="c" if a["stor"] == "h" else "h")
            pairs.append((len(sessions), len(sessions) + 1))
            sessions += [a, b]
        for _ in range(nrand):
            sessions.append(gen_random(r2, small))
        for hd, size, opk in ((1, 8, 4), (1, 1, 2), (0, 0, 0)) + (() if quick else ((1, 24, 0), (1, 3, 1), (1, 64, 0))):
            nt = min(4 * ns * nw + 3, 64)
            sessions.append(dict(sess("h" if size != 1 else "c", hd, size, opk, nt, [], [], [], "tmpdata"), tmpdata=nt))
        slines = [impl_lines(s) for s in sessions]
        env = core.qenv(ns, nw, stack=65536, MALLOC_PERTURB_=165)
        res = run_impl(exe, slines, env, budget, ctx.notes, watchdog=30 if ns == 1 else 60)
        parsed = [parse_impl(r) if r is not None else None for r in res]
        minput = []
        for s, p in zip(sessions, parsed):
            if p is None or p["C"] is None:
                continue
            if s.get("tmpdata"):
                C = p["C"]
                for (shep, worker, null, tslot, off, sslot) in p["M"]:
                    minput.append("M %d %s %d %s %d %d" % (s["hd"], C[2], max(s["size"], 1), C[3], shep, worker))
            else:
                minput += model_lines(s, p)
        rc2, mout, merr = core.run_lines(drv, minput, timeout=600)
        mi = 0
        traces = {}
        for si, (s, p) in enumerate(zip(sessions, parsed)):
            if p is None:
                skipped += 1
                continue
            case = {"config": [ns, nw], "kind": s["kind"], "storage": "qt_sinc_create" if s["stor"] == "h" else "qt_sinc_init on static storage",
                    "sinc": dict(hasdata=s["hd"], size=s["size"], op=OPNAMES[s["opk"]], init=s["init"], count=s["c0"]),
                    "programs": [" ".join(optok(o) for o in q) for q in s["progs"]], "lifecycle": " ".join(ctok(o) for o in s["script"]),
                    "input_lines": slines[si], "harness": "c10_extra"}
            evals += 1
            k0 = s["kind"].split("@")[0].split(":")[0]
            hist[k0] = hist.get(k0, 0) + 1
            if p["C"] is None:
                mismatches.append(dict(case, what="no create line", impl=res[si][-3:]))
                fails.append((None, "no output for the session (crash or hang)", case))
                continue
            if s.get("tmpdata"):
                for m in p["M"]:
                    if mi >= len(mout):
                        raise core.BuildError("c10extra model driver output too short: %s" % merr[-300:])
                    mm = mout[mi].split(); mi += 1
                    tmp_points += 1
                    (shep, worker, null, tslot, off, sslot) = m
                    exp = ("-", None) if not s["hd"] else (mm[1], int(mm[2]))
                    got = ("-", None) if null else (str(tslot), off)
                    if exp != got or (s["hd"] and (mm[3] != mm[1] or (int(mm[4]), int(mm[5])) != (shep, worker))):
                        mismatches.append(dict(case, what="qt_sinc_tmpdata", impl=list(m), model=mm))
                why = oracle_tmp(s, p)
                if why:
                    fails.append((None, why, dict(case, impl=res[si][-6:])))
                continue
            mg = []
            while mi < len(mout):
                mg.append(mout[mi]); mi += 1
                if mg[-1].startswith("END"):
                    break
            impl = [p["I"]] + p["steps"] + [p["end"]]
            steps_total += len(p["steps"])
            traces[si] = impl
            if impl != mg:
                d = core.first_diff(impl, mg)
                mismatches.append(dict(case, step=d, impl=impl[max(0, d - 2):d + 2], model=mg[max(0, d - 2):d + 2]))
            # the printf of qt_sinc_resize: once per resize of a sinc that still has its value part
            exp_w, prev = 0, (p["I"] or "I 0 0 -").split()[3]
            for l in p["steps"]:
                f = l.split()
                if f[1] == "RAdd" and prev != "-":
                    exp_w += 1
                prev = f[4]
            if p["warns"] is not None and p["warns"] != exp_w and not (p["end"] or "").startswith("TIMEOUT"):
                mismatches.append(dict(case, what="qt_sinc_resize printed its warning %d times, expected %d" % (p["warns"], exp_w)))
            try:
                why = oracle(s, p)
            except (IndexError, ValueError, KeyError) as e:
                why = ("trace of the implementation is malformed (%s)" % e, None)
            if why:
                fails.append((why[1], why[0], dict(case, impl_tail=impl[-6:])))
            if p["steps"] and " u=0 " not in p["steps"][-1]:
                uaf_sessions += 1
            if len(samples) < 3 and len(p["steps"]) > 12 and s["kind"].startswith("random") and s["script"]:
                samples.append(dict(case, impl_first_steps=impl[:6], impl_last=impl[-2:]))
        for (a, b) in pairs:
            if a in traces and b in traces:
                pair_checked += 1
                ta, tb = [norm_slots(l, nw) for l in traces[a]], [norm_slots(l, nw) for l in traces[b]]
                if ta != tb:
                    d = core.first_diff(ta, tb)
                    case = {"config": [ns, nw], "input_lines": slines[a], "input_lines_other_storage": slines[b], "harness": "c10_extra"}
                    mismatches.append(dict(case, what="qt_sinc_create and qt_sinc_init on static storage behave differently", step=d,
                                           heap_or_static=traces[a][max(0, d - 1):d + 2], other=traces[b][max(0, d - 1):d + 2]))
                    fails.append((None, "the same programs, lifecycle script and schedule give different traces on a created sinc and on an initialised static one", case))
    for k, v in dict(extra_evaluations=evals, extra_micro_steps_compared=steps_total, extra_input_distribution=hist,
                     extra_configs=[list(c[0]) for c in configs], extra_cases_not_run_budget=skipped,
                     extra_tmpdata_points=tmp_points, extra_sessions_with_counted_use_after_free=uaf_sessions,
                     extra_create_vs_init_pairs=pair_checked, extra_correspondence_mismatches=len(mismatches),
                     extra_samples=samples, extra_wall_s=round(time.time() - t_start, 1),
                     extra_refuted_on_current_tree=["resize_leaves_ready_full_refuted", "sinc_reset_zero_incomplete_refuted", "sinc_fini_copy_in_flight_refuted"]).items():
        ctx.cov[k] = v
    for k in ("evaluations", "traces_validated_against_impl"):
        if isinstance(ctx.cov.get(k), int):
            ctx.cov[k] += evals
    ctx.assumptions += ["extra: a released waiter's plain loads of sinc->rdata after qthread_readFF belong to the step that released it (baton granularity); "
                        "qt_sinc_reset's plain stores are one step"]
    broken = bool(mismatches) or not pr["ok"]
    known = {}
    unknown = []
    for (sig, w, c) in fails:
        if sig is not None:
            known.setdefault(sig, (w, c))
        else:
            unknown.append((w, c))
    if not broken:
        for sig, (w, c) in known.items():
            if core.match_known("C10", sig) is not None:
                ctx.violation(sig, w, c)
            else:
                ctx.notes.append("note (%s, not counted): %s -- %s; input: %s" % (
                    "outside the text of C10 (resize is not expect), docs/proposed_fixes/C10-resize-ready.diff" if sig == RESIZE_SIG
                    else "unspecified by the API text, DESIGN.md C10", sig, w, " / ".join(x[:80] for x in c["input_lines"][:6])))
        for (w, c) in unknown[:3]:
            ctx.notes.append("extra: the oracle rejects a trace on which model and implementation agree (not counted; oracle or model to be reviewed): %s; input: %s"
                             % (w, " / ".join(x[:80] for x in c["input_lines"][:6])))
    else:
        what = ("correspondence Sinc.Extra / sincs/donecount.c (lifecycle entry points) broken (%d cases)" % len(mismatches)) if mismatches else \
               "theorems in %s no longer check" % pr["file"]
        if unknown:
            w, c = unknown[0]
            ctx.violation("extra:" + w.split()[0], what + "; failing input: " + w,
                          {"failing_input": c, "reason": w, "first_mismatch": mismatches[0] if mismatches else None, "coq_log": pr["log"][-1500:]})
        else:
            ctx.violation("broken", what, {"theorem_or_correspondence": "impl != Sinc.Extra (micro-step replay, harness c10_extra)" if mismatches else pr["file"],
                                           "first_mismatch": mismatches[0] if mismatches else None, "coq_log": pr["log"][-1500:],
                                           "known_class_failures": {s: w for s, (w, c) in known.items()}}, no_input=True)


def replay_extra(ctx, case):
    """re-run the recorded session of harness c10_extra and print its trace (called from c10.replay)"""
    lines = case["input_lines"]
    cfg = case.get("config", [1, 1])
    exe = ctx.link("c10_extra", ["c10_extra.c"], exclude=["sincs/donecount.c"])
    res = run_impl(exe, [lines], core.qenv(cfg[0], cfg[1], stack=65536, MALLOC_PERTURB_=165), 600, ctx.notes, 60)
    out = res[0] or ["TIMEOUT"]
    print("\n".join(out[-20:]))
    bad = any(l.startswith("TIMEOUT") or "UAF" in l for l in out)
    if bad:
        ctx.violation("replay", "replayed life-cycle session of the sinc still fails (watchdog or access to freed memory)", case)
    else:
        print("# replay ran on harness c10_extra; compare the printed trace with the reason recorded in the replay file")
