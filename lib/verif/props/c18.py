"""C18 atomic read-modify-write primitives.

Proof: coq/theories/Atomics (micro-step machine over the shape of the primitives; hardware atomicity ASSUMED).
Tie 1: the shape is re-read from include/qthread/qthread.h on every run (c18_shape.py -> Atomics/GenShape.v) and
       `shape_is_expected` must still hold.
Tie 2 (M4): contention runs on the real primitives (pthreads and qthreads); the theorems' conclusions are checked on the
       observed returned values (totals, distinct tickets, returned-value chain, one CAS winner per round) and the
       extracted machine must reproduce every run on a schedule derived from the observed linearisation (with injected
       failed CAS attempts).  A search for failing inputs, not a proof.
"""
import json
import struct
from .. import core
from . import c18_shape

LEVEL = "partial"
EXPLANATION = ("Coq theorems (all schedules, any number of threads, all increments mod 2^w) about the CAS-retry loops and the "
               "primitive each API name expands to, for the shape re-read from qthread.h on every run; atomicity of "
               "lock-prefixed instructions / __sync builtins and sequential consistency are assumed, not proved; "
               "contention runs on the real code search for counterexamples.")

WIDTH = {"i32": 32, "x32": 32, "f": 32, "m32": 32, "c32": 32, "i64": 64, "x64": 64, "d": 64, "m64": 64, "md": 64, "c64": 64, "cp": 64}
# machine index in Model.cfgs_of and add kind of the model driver
MACHINE = {"x32": (0, "i"), "i32": (1, "i"), "m32": (1, "i"), "c32": (0, "i"), "f": (0, "f"),
           "x64": (2, "i"), "i64": (3, "i"), "m64": (3, "i"), "c64": (3, "i"), "cp": (4, "i"), "d": (2, "d"), "md": (2, "d")}
FLOATK = {"f": ("<f", "<I"), "d": ("<d", "<Q"), "md": ("<d", "<Q")}


def fbits(kind, x):
    ff, fi = FLOATK[kind]
    return struct.unpack(fi, struct.pack(ff, x))[0]


def fval(kind, b):
    ff, fi = FLOATK[kind]
    return struct.unpack(ff, struct.pack(fi, b))[0]


def apply_inc(kind, cur, inc):
    if kind in FLOATK:
        return fbits(kind, fval(kind, cur) + fval(kind, inc))
    return (cur + inc) & ((1 << WIDTH[kind]) - 1)


def gen_run(rng, rid, mode, tier, workers=16):
    kind = rng.weighted([("i32", 3), ("i64", 3), ("x32", 1), ("x64", 1), ("f", 4), ("d", 4), ("m32", 2), ("m64", 2), ("md", 2),
                         ("c32", 2), ("c64", 2), ("cp", 2)])
    w = WIDTH[kind]
    M = 1 << w
    nthr = rng.choice([2, 3, 4, 6, 8, 16] if mode == "P" else [2, 3, 4, 8, 12, 16])
    big = tier != "quick"
    if kind in ("c32", "c64", "cp"):
        return dict(id=rid, mode=mode, kind=kind, nthr=nthr, nops=(rng.range(4, 12) if mode == "Q" else rng.range(20, 120 if big else 60)), yield_every=0, init=rng.choice([0, 5, 77]),
                    flavour="cas", pats=[])
    flavour = rng.weighted([("plus1", 3), ("pos", 3), ("neg", 2), ("wrap", 2), ("mixed_small", 2), ("mixed", 2)])
    nops = rng.range(200, 3000 if big else 1200)
    yield_every = 0 if mode == "Q" else rng.choice([0, 0, 0, 50])
    isf = kind in FLOATK
    if flavour == "mixed_small":
        nthr = rng.choice([2, 3])
        nops = rng.range(5, 40)
        yield_every = 0 if mode == "Q" else rng.choice([0, 1, 3])
    pats = []
    for t in range(nthr):
        n = rng.range(1, 6)
        if flavour == "plus1":
            vals = [1]
        elif isf:
            mags = [1.0, 2.0, 3.0, 0.5, 0.25, 7.0, 1.5]
            vals = [rng.choice(mags) for _ in range(n)]
            if flavour == "neg":
                vals = [-v for v in vals]
            elif flavour in ("mixed", "mixed_small"):
                vals = [v if rng.chance(1, 2) else -v for v in vals]
        else:
            vals = [rng.range(1, 9) if rng.chance(3, 4) else rng.range(1, 1 << (w // 2)) for _ in range(n)]
            if flavour == "neg":
                vals = [M - v for v in vals]
            elif flavour in ("mixed", "mixed_small"):
                vals = [v if rng.chance(1, 2) else M - v for v in vals]
        pats.append(vals)
    if isf:
        init = {"plus1": 0.0, "pos": 16.0, "neg": 1024.0, "wrap": -4096.0, "mixed": 100.0, "mixed_small": 2.0}[flavour]
        init_bits = fbits(kind, init)
        pats = [[fbits(kind, v) for v in p] for p in pats]
    else:
        init_bits = {"plus1": rng.choice([0, M - 5, 12345]), "pos": rng.below(1000), "neg": rng.below(50), "wrap": M - 1 - rng.below(300),
                     "mixed": rng.choice([0, 3, M - 2]), "mixed_small": rng.choice([0, 1, M - 1])}[flavour]
    return dict(id=rid, mode=mode, kind=kind, nthr=nthr, nops=nops, yield_every=yield_every, init=init_bits, flavour=flavour, pats=pats)


def run_line(r):
    s = "RUN %d %s %s %d %d %d %x" % (r["id"], r["mode"], r["kind"], r["nthr"], r["nops"], r["yield_every"], r["init"])
    for p in r["pats"]:
        s += " " + ",".join("%x" % v for v in p)
    return s


def parse_out(lines):
    """-> {id: (final, {tid: [rets]})}, timed_out"""
    res, cur, timed = {}, None, False
    for l in lines:
        p = l.split()
        if not p:
            continue
        if p[0] == "R":
            cur = (int(p[1]), int(p[2], 16), {})
        elif p[0] == "T" and cur:
            cur[2][int(p[1])] = [int(x, 16) for x in p[2:]]
        elif p[0] == "E" and cur:
            res[cur[0]] = (cur[1], cur[2])
            cur = None
        elif p[0] == "TIMEOUT":
            timed = True
    return res, timed


def cas_new(rnd, tid):
    return ((rnd + 1) << 8) | (tid + 1)


def cas_stale(rnd, tid):
    return tid != 0 and ((rnd * 7 + tid) % 5) == 0


def op_kind(r, tid):
    """model operation letter of thread tid"""
    k = r["kind"]
    if k in ("f", "d"):
        return "l"
    if k in ("m32", "m64", "md"):
        return "l" if tid & 1 else ("l" if k == "md" else "i")
    return "i"


def events_of(r, rets):
    ev = []
    for t in range(r["nthr"]):
        p = r["pats"][t]
        for k, v in enumerate(rets[t]):
            ev.append((t, k, p[k % len(p)], v))
    return ev


def oracle_incr(r, final, rets):
    """the property on the observed behaviour.  -> (reason|None, linearisation|None)
    linearisation = list of (tid, k, inc, ret) in the order of the successful primitives, when it can be determined"""
    kind, init = r["kind"], r["init"]
    M = 1 << WIDTH[kind]
    isf = kind in FLOATK
    ev = events_of(r, rets)
    for t in range(r["nthr"]):
        if len(rets.get(t, [])) != r["nops"]:
            return "thread %d returned %d values for %d operations" % (t, len(rets.get(t, [])), r["nops"]), None
    if r["flavour"] == "nan":
        # NaN + x = NaN (same bit pattern): the loop must compare bit patterns, or it never terminates / mis-detects success
        badr = [(t, v) for t in rets for v in rets[t] if v != init]
        if badr or final != init:
            return "NaN cell: thread %s returned 0x%x / final 0x%x, expected the NaN bit pattern 0x%x throughout" % (
                badr[0][0] if badr else "-", badr[0][1] if badr else final, final, init), None
        return None, None
    # totals: no lost update
    if isf:
        tot = fval(kind, init) + sum(fval(kind, e[2]) for e in ev)       # exact: all partial sums are representable
        if fbits(kind, tot) != final:
            return "lost update: final %r, initial %r + sum of increments = %r" % (fval(kind, final), fval(kind, init), tot), None
    else:
        tot = (init + sum(e[2] for e in ev)) % M
        if tot != final:
            return "lost update: final 0x%x, (initial + sum of increments) mod 2^%d = 0x%x" % (final, WIDTH[kind], tot), None
    fl = r["flavour"]
    if fl in ("plus1", "pos", "neg", "wrap"):
        # monotone: the linearisation is the order of the returned values
        if isf:
            key = (lambda e: fval(kind, e[3])) if fl != "neg" else (lambda e: -fval(kind, e[3]))
        else:
            key = (lambda e: (e[3] - init) % M) if fl != "neg" else (lambda e: (init - e[3]) % M)
        lin = sorted(ev, key=key)
        if fl == "plus1":
            seen = {}
            for e in ev:
                if e[3] in seen:
                    return "qthread_incr(+1) returned 0x%x twice (threads %d and %d)" % (e[3], seen[e[3]], e[0]), None
                seen[e[3]] = e[0]
        cur = init
        pos = [0] * r["nthr"]
        for e in lin:
            if e[3] != cur:
                return ("returned-value chain broken: an operation of thread %d returned 0x%x, the cell held 0x%x before the "
                        "next successful primitive" % (e[0], e[3], cur)), None
            if e[1] != pos[e[0]]:
                return "thread %d: operations linearised out of program order" % e[0], None
            pos[e[0]] += 1
            cur = apply_inc(kind, cur, e[2])
        if cur != final:
            return "chain ends at 0x%x, final cell 0x%x" % (cur, final), None
        return None, lin
    # mixed signs: values repeat.  necessary condition: the edges ret -> ret+inc form an Eulerian trail init -> final
    deg = {}
    for e in ev:
        a, b = e[3], apply_inc(kind, e[3], e[2])
        deg[a] = deg.get(a, 0) + 1
        deg[b] = deg.get(b, 0) - 1
    deg[init] = deg.get(init, 0) - 1
    deg[final] = deg.get(final, 0) + 1
    badv = [v for v, d in deg.items() if d != 0]
    if badv:
        return "returned values are not a chain: value 0x%x is returned %+d times more often than it is produced" % (badv[0], deg[badv[0]]), None
    if fl == "mixed_small":
        lin = exact_linearisation(r, rets)
        if lin is None:
            return "no sequential order of the operations explains the returned values", None
        return None, lin
    return None, None


def exact_linearisation(r, rets):
    """search over position vectors (small runs): an order respecting program order in which every op returns the current cell"""
    import sys
    kind, n = r["kind"], r["nthr"]
    pats = r["pats"]
    dead = set()
    sys.setrecursionlimit(10000)
    order = []

    def go(pos, cur):
        if all(pos[t] == r["nops"] for t in range(n)):
            return True
        if pos in dead:
            return False
        for t in range(n):
            k = pos[t]
            if k < r["nops"] and rets[t][k] == cur:
                inc = pats[t][k % len(pats[t])]
                order.append((t, k, inc, cur))
                if go(pos[:t] + (k + 1,) + pos[t + 1:], apply_inc(kind, cur, inc)):
                    return True
                order.pop()
        dead.add(pos)
        return False
    return list(order) if go(tuple([0] * n), r["init"]) else None


def oracle_cas(r, final, rets):
    """exactly one winner per round; -> (reason|None, per-round order of thread ids)"""
    cur = r["init"]
    sched = []
    winners = set()
    for rnd in range(r["nops"]):
        win = [t for t in range(r["nthr"]) if rets[t][rnd] == cur and not cas_stale(rnd, t)]
        if len(win) != 1:
            return "round %d: %d compare-and-swaps expecting 0x%x succeeded (threads %s)" % (rnd, len(win), cur, win), None
        wv = cas_new(rnd, win[0])
        before = []
        after = []
        for t in range(r["nthr"]):
            if t == win[0]:
                continue
            if rets[t][rnd] == wv:
                after.append(t)
            elif rets[t][rnd] == cur and cas_stale(rnd, t):
                before.append(t)
            else:
                return "round %d: thread %d got 0x%x, neither the expected old value 0x%x nor the winner's 0x%x" % (rnd, t, rets[t][rnd], cur, wv), None
        sched.append(before + [win[0]] + after)
        winners.add(win[0])
        cur = wv
    if cur != final:
        return "final cell 0x%x, last winner wrote 0x%x" % (final, cur), None
    return None, (sched, winners)


def model_replay_incr(r, lin, rng):
    """driver commands reproducing the linearisation, with injected failed CAS attempts; -> (cmds, injected)"""
    mi, fk = MACHINE[r["kind"]]
    cmds = ["C %d %s" % (mi, fk), "I %x" % r["init"]]
    for t in range(r["nthr"]):
        p = r["pats"][t]
        cmds.append("P " + " ".join("%s%x" % (op_kind(r, t), p[k % len(p)]) for k in range(r["nops"])))
    steps = []
    inj = 0
    for idx, (t, k, inc, ret) in enumerate(lin):
        if op_kind(r, t) == "l":
            if idx > 0 and lin[idx - 1][0] != t and rng.chance(1, 3):
                steps[idx - 1].insert(0, t)         # t loads before the previous operation's primitive ...
                steps.append([t, t, t])             # ... its CAS fails, it reloads and succeeds
                inj += 1
            else:
                steps.append([t, t])
        else:
            steps.append([t])
    flat = [str(x) for s in steps for x in s]
    for i in range(0, len(flat), 2000):
        cmds.append("S " + " ".join(flat[i:i + 2000]))
    cmds.append("G")
    return cmds, inj


def model_replay_cas(r, sched):
    mi, fk = MACHINE[r["kind"]]
    cmds = ["C %d %s" % (mi, fk), "I %x" % r["init"]]
    cur = r["init"]
    exp = []
    for rnd, order in enumerate(sched):
        exp.append(cur)
        # the winner is the first non-stale thread in the order
        for t in order:
            if not cas_stale(rnd, t):
                cur = cas_new(rnd, t)
                break
    for t in range(r["nthr"]):
        ops = []
        for rnd in range(r["nops"]):
            e = exp[rnd] ^ (1 << 30) if cas_stale(rnd, t) else exp[rnd]
            ops.append("c%x:%x" % (e, cas_new(rnd, t)))
        cmds.append("P " + " ".join(ops))
    flat = [str(t) for order in sched for t in order]
    for i in range(0, len(flat), 2000):
        cmds.append("S " + " ".join(flat[i:i + 2000]))
    cmds.append("G")
    return cmds


def run(ctx):
    rng = ctx.rng
    quick = ctx.tier == "quick"
    # ---- tie 1: the shape, re-read from the source
    sh, info, changed = c18_shape.regenerate()
    problems = c18_shape.expected_problems(sh)
    try:
        pr = ctx.coq_properties("Properties/Properties_C18.v")
        ok_x, log_x = ctx.coq_make(["theories/Atomics/Extract.vo"])
        if not ok_x:
            raise core.BuildError("Atomics/Extract.v does not compile:\n" + log_x[-2000:])
        drv = ctx.model_driver("c18_driver")
    finally:
        if core.REPO != "/repo" and problems:
            # a mutated scratch tree: do not leave the shared Coq tree with a shape other engineers' builds would trip over
            try:
                c18_shape.regenerate("/repo")
            except Exception:
                pass
    exe = ctx.link("c18_atomics", ["c18_atomics.c"])
    rc, kout, _ = core.run_lines(drv, ["K"], timeout=60)
    model_shape_ok = bool(kout) and kout[0].split()[1:] == ["true"] * 6

    # ---- tie 2: contention runs
    qconfigs = [(2, 2), (4, 1)] if quick else [(1, 1), (2, 2), (4, 1), (3, 2), (8, 1), (2, 4)]
    nP = 26 if quick else 90
    nQ = 5 if quick else 12          # few: a fork/join on an oversubscribed machine costs up to seconds
    corpus = [dict(id=0, mode="P", kind="f", nthr=2, nops=50, yield_every=0, init=0x7fc00000, flavour="nan",
                   pats=[[fbits("f", 1.0)], [fbits("f", 2.0)]]),
              dict(id=1, mode="P", kind="d", nthr=3, nops=50, yield_every=0, init=0x7ff8000000000000, flavour="nan",
                   pats=[[fbits("d", 1.0)], [fbits("d", -2.0)], [fbits("d", 0.5)]])]
    batches = [("P", None, corpus + [gen_run(rng, 2 + i, "P", ctx.tier) for i in range(nP)])]
    rid = nP + 2
    for cfgq in qconfigs:
        batches.append(("Q", cfgq, [gen_run(rng, rid + i, "Q", ctx.tier, cfgq[0] * cfgq[1]) for i in range(nQ)]))
        rid += nQ
    evals = 0
    nontrivial = 0
    oracle_fail = []       # (reason, case)
    mismatches = []
    samples = []
    hist = {}
    injected = 0
    inconclusive = 0
    replayed = 0
    for mode, cfgq, runs in batches:
        env = core.qenv(cfgq[0], cfgq[1], stack=65536) if cfgq else core.qenv()
        rc, out, err = core.run_lines(exe, [run_line(r) for r in runs] + ["Q"], timeout=900, env=env)
        res, timed = parse_out(out)
        mcmds = []
        pending = []
        for r in runs:
            case = dict(r, config=cfgq, pats=[["%x" % v for v in p] for p in r["pats"]], init="%x" % r["init"])
            if r["id"] not in res:
                why = "the run did not finish (rc=%s%s): %s" % (rc, ", watchdog" if timed else "", err[-300:])
                oracle_fail.append((why, case))
                mismatches.append(("hang-or-crash", case))
                break
            final, rets = res[r["id"]]
            evals += 1
            key = "%s/%s/%s" % (mode, r["kind"], r["flavour"])
            hist[key] = hist.get(key, 0) + 1
            if r["flavour"] == "cas":
                why, extra = oracle_cas(r, final, rets)
                if why:
                    oracle_fail.append((why, dict(case, final="%x" % final, rets={t: ["%x" % v for v in rets[t][:40]] for t in rets})))
                    continue
                sched, winners = extra
                if len(winners) >= 2:
                    nontrivial += 1
                mcmds += model_replay_cas(r, sched)
                pending.append((r, final, rets, case))
            else:
                why, lin = oracle_incr(r, final, rets)
                if why:
                    oracle_fail.append((why, dict(case, final="%x" % final, rets={t: ["%x" % v for v in rets[t][:40]] for t in rets})))
                    continue
                if lin is None:
                    inconclusive += r["flavour"] != "nan"
                    continue
                switches = sum(1 for a, b in zip(lin, lin[1:]) if a[0] != b[0])
                if switches >= 2 * r["nthr"]:
                    nontrivial += 1
                if len(samples) < 4 and switches >= 2 * r["nthr"]:
                    samples.append(dict(case, final="%x" % final, thread_switches_in_linearisation=switches,
                                        first_returned={t: ["%x" % v for v in rets[t][:6]] for t in rets}))
                cm, inj = model_replay_incr(r, lin, rng)
                injected += inj
                mcmds += cm
                pending.append((r, final, rets, case))
        if pending:
            rc2, mout, merr = core.run_lines(drv, mcmds, timeout=900)
            mres = []
            cur = None
            for l in mout:
                p = l.split()
                if p and p[0] == "R":
                    cur = (int(p[1], 16), p[2] == "true", {})
                elif p and p[0] == "T" and cur:
                    cur[2][int(p[1])] = [int(x, 16) for x in p[2:]]
                elif p and p[0] == "E" and cur:
                    mres.append(cur)
                    cur = None
                elif p and p[0] == "ERR":
                    mismatches.append(("model-driver-error", {"line": l}))
            for (r, final, rets, case), m in zip(pending, mres):
                replayed += 1
                if m[0] != final or not m[1] or any(m[2].get(t) != rets[t] for t in range(r["nthr"])):
                    t_bad = next((t for t in range(r["nthr"]) if m[2].get(t) != rets[t]), None)
                    mismatches.append(("model!=impl", dict(case, impl_final="%x" % final, model_final="%x" % m[0], model_finished=m[1],
                                                           first_thread_differing=t_bad)))
            if len(mres) != len(pending):
                mismatches.append(("model-driver-short", {"expected": len(pending), "got": len(mres), "stderr": merr[-300:]}))

    ctx.cov.update(evaluations=evals, distinct_nontrivial=nontrivial,
                   rule="one evaluation = one contention run (2-16 pthreads or qthreads hammering one cell; all returned values recorded); "
                        "non-trivial = the observed linearisation switches threads >= 2*threads times (CAS rounds: >= 2 distinct winners)",
                   samples=samples, traces_validated_against_impl=replayed, input_distribution=hist,
                   configs={"pthreads": True, "qthreads": qconfigs}, injected_failed_cas_in_model_replay=injected,
                   mixed_sign_runs_checked_by_balance_only=inconclusive, correspondence_mismatches=len(mismatches),
                   shape=dict(info, problems=problems, regenerated=changed, model_shape_ok=model_shape_ok))
    ctx.assumptions += ["a lock-prefixed cmpxchg/xadd instruction and the __sync_* builtins are atomic (one machine step); sequential consistency",
                        "mixed-width access to overlapping bytes is not modelled",
                        "float/double runs use exactly representable values so that sums are exact"]
    broken_shape = bool(problems) or not pr["ok"] or not model_shape_ok
    broken = broken_shape or bool(mismatches)
    if not broken:
        for why, case in oracle_fail[:3]:
            ctx.violation("unlisted:" + why.split(":")[0][:30], why, case)
        return
    if broken_shape:
        what = ("the shape of the atomic primitives read from qthread.h is not the one the theorems cover (shape_is_expected): "
                + ("; ".join(problems[:4]) if problems else "Properties_C18.v no longer checks"))
    else:
        what = "correspondence extracted machine / real primitives broken (%d runs): %s" % (len(mismatches), mismatches[0][0])
    if oracle_fail:
        why, case = oracle_fail[0]
        ctx.violation("broken+input", what + "; failing input: " + why,
                      {"failing_input": case, "reason": why, "shape_problems": problems, "first_mismatch": mismatches[0] if mismatches else None,
                       "coq_log": pr["log"][-1500:]})
    else:
        ctx.violation("broken", what, {"theorem_or_correspondence": "Atomics.Theorems.shape_is_expected" if broken_shape else "impl != Atomics.Model",
                                       "shape_problems": problems, "first_mismatch": mismatches[0] if mismatches else None,
                                       "coq_log": pr["log"][-1500:]}, no_input=True)


def replay(ctx, path):
    """re-run the failing contention run of a replay file on the real primitives (several times: it is a race)"""
    j = json.load(open(path))
    print(json.dumps(j, indent=1)[:3000])
    case = j.get("replay", {}).get("failing_input") or j.get("replay", {})
    if not isinstance(case, dict) or "kind" not in case:
        return run(ctx)
    r = dict(case)
    r["init"] = int(case["init"], 16)
    r["pats"] = [[int(v, 16) for v in p] for p in case["pats"]]
    exe = ctx.link("c18_atomics", ["c18_atomics.c"])
    cfgq = case.get("config")
    env = core.qenv(cfgq[0], cfgq[1], stack=65536) if cfgq else core.qenv()
    for attempt in range(20):
        r["id"] = attempt
        rc, out, err = core.run_lines(exe, [run_line(r), "Q"], timeout=300, env=env)
        res, timed = parse_out(out)
        if attempt not in res:
            ctx.violation("replay", "the run did not finish", case)
            return
        final, rets = res[attempt]
        why = (oracle_cas if r["flavour"] == "cas" else oracle_incr)(r, final, rets)[0]
        if why:
            ctx.violation("replay", why, dict(case, attempt=attempt))
            return
    print("# replay: 20 repetitions of the run satisfied the property")
