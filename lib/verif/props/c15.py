"""C15 concurrent queues (qswsrqueue, qlfqueue, qdqueue, hazard pointers).

Models: coq/theories/CQueues/{Swsr,Lfq,Hazard,Dq}.v ; theorems: Properties/Properties_C15.v.
Tie (DESIGN.md section 4):
  M1  create() size rounding, void_cmp, binary_search, hazardous_scan on prepared worker slots (real functions, white-box)
  M3  micro-step schedule replay of the real qswsrqueue.c (2 pthreads) and qlfqueue.c (K tasks pinned on K workers of a
      live runtime, real hazard pointers, fixed-address node arena): a schedule is a list of thread ids, every grant runs
      one thread to its next interposed access; after every grant kind-of-access + abstract dump are compared with the
      extracted model executing the same schedule (derived step run_to_sp).
  M4  free-running tasks on 1x1 / 2x2 / 4x1 for all three queues, oracle = the property's predicates.

Line formats (harness = H, model driver = D):
  SC e                      -> SC size|NULL                      (D: SC cw ps e)
  VC a b                    -> VC int
  BS len x | l...           -> BS 0|1
  HS me | slots w0 | ... | freelist   -> H: HS | kept | freed     D: HS consistent | kept | freed
  SW elements override cap | prod ops | cons ops | schedule(0/1 string)     (D: SW elements override cap cw ps | ...)
       ops: e<v> enqueue, E<v> enqueue_blocking, d dequeue, D dequeue_blocking, m empty
       -> S size ; per grant: g tid kind [result] | head tail | contents ; F | ... stuck tids
  LF cap hi | ops t0 | ops t1 ... | schedule (digits)           (D: LF cap | ...)   ops: e<v>, d, m
       -> per grant: g tid kind [result] | tail position | contents ; F | ...
  DQ | <shep>e<v> | <shep>t<target>,<v> | <shep>d | <shep>m ...   sequential qdqueue script, one task per operation pinned to <shep>
       -> S n | q0 | q1 ... ; per op: r actual-shep op result | q0 | q1 ... ; F        (oracle only)
  M4 kind nprod ncons per blocking ring perturb -> C lines + F line
"""
import json
import os
import time
from .. import core
from . import _gen

P = "C15"
LEVEL = "proof"
EXPLANATION = ("30 Coq theorems over micro-step models of qswsrqueue / qlfqueue (every interleaving), the hazard-pointer scan and "
               "qdqueue; the models are tied to the working tree by M1 differential runs, M3 baton-scheduled micro-step replay of the "
               "real lock-free code (access kinds + abstract dumps after every grant) and M4 free-running acceptance.")
LO = 0x7e0000001000
HI = 0x7e0080001000
EXCLUDE = ["ds/qswsrqueue.c", "ds/qlfqueue.c", "hazardptrs.c", "ds/qdqueue.c"]


def norm(l):
    return " ".join(l.split())


def bursts(rng, nt, total, weights=(1, 1, 1, 1, 2, 2, 3, 5, 8, 13, 30)):
    s = []
    while len(s) < total:
        t = rng.below(nt)
        s.extend([str(t)] * rng.choice(weights))
    return "".join(s[:total])


# ---------------------------------------------------------------------------------------------- generators
def gen_sw(rng, big=False):
    if big:
        elements, override = rng.choice([1, 8, 64]), 0
        n = rng.range(70, 150)
    else:
        elements = rng.choice([1, 3, 8, 9, 64, 65])
        override = rng.choice([1, 2, 2, 3, 3, 4, 5, 7])
        n = rng.range(2, 28)
    seq = [0]

    def pop():
        k = rng.weighted([("e", 45), ("E", 35), ("m", 20)])
        if k == "m":
            return "m"
        seq[0] += 1
        return "%s%d" % (k, seq[0])
    pp = [pop() for _ in range(n if rng.chance(9, 10) else 0)]
    nblk = sum(1 for o in pp if o[0] == "E") if rng.chance(3, 4) else 99
    cp = []
    for _ in range(rng.range(max(0, n - 3), n + 3) if rng.chance(9, 10) else 0):
        k = rng.weighted([("d", 45), ("D", 35), ("m", 20)])
        if k == "D":
            if nblk <= 0:
                k = "d"
            nblk -= 1
        cp.append(k)
    total = 3 * (len(pp) + len(cp)) + 5
    sched = bursts(rng, 2, rng.range(total // 2, total), (1, 1, 1, 2, 2, 3, 4, 6, 10, 25) if not big else (1, 2, 5, 20, 60, 200))
    cap = 4 * (len(pp) + len(cp)) + 30
    return dict(mode="SW", elements=elements, override=override, cap=cap, pp=pp, cp=cp, sched=sched)


def load_corpus():
    """corpus/C15/regression.json: fixed cases that always run first"""
    path = os.path.join(core.VERIF, "corpus", P, "regression.json")
    return [dict(c, corpus=c.get("corpus", "regression")) for c in json.load(open(path))["cases"]]


def gen_lf(rng, nt, thorough):
    progs = []
    shape = rng.below(5)
    for t in range(nt):
        if shape == 0:      # producers / consumers
            role = "p" if t == 0 else "c"
        elif shape == 1:
            role = "c" if t == 0 else "p"
        else:
            role = rng.choice(["p", "c", "x"])
        n = rng.range(2, 40 if thorough else 26)
        ops = []
        seq = 0
        for _ in range(n):
            if role == "p":
                k = rng.weighted([("e", 85), ("m", 5), ("d", 10)])
            elif role == "c":
                k = rng.weighted([("d", 80), ("m", 12), ("e", 8)])
            else:
                k = rng.weighted([("e", 45), ("d", 45), ("m", 10)])
            if k == "e":
                seq += 1
                ops.append("e%d" % ((t + 1) * (1 << 20) + seq))
            else:
                ops.append(k)
        progs.append(ops)
    total = 5 * sum(len(p) for p in progs)
    pre = ""
    if rng.chance(1, 2):    # let one thread run ahead (prefill / drain), so that scans and node reuse happen
        pre = str(rng.below(nt)) * rng.range(20, 160)
    sched = pre + bursts(rng, nt, rng.range(total // 3, total))
    return dict(mode="LF", cap=8 * sum(len(p) for p in progs) + 200, hi=0, progs=progs, sched=sched)


def gen_hs(rng, nw, flmax):
    consistent = rng.chance(7, 10)
    pool = [LO + 16 * i for i in range(48)]
    if not consistent:
        pool = pool[:16] + [HI + 16 * i for i in range(16)] + [LO + (1 << 32) + 16 * i for i in range(4)]
    slots = [[0 if rng.chance(2, 5) else rng.choice(pool) for _ in range(2)] for _ in range(nw)]
    me = rng.below(nw)
    others = [p for w in range(nw) if w != me for p in slots[w] if p]
    fl = []
    for _ in range(rng.range(1, flmax - 1)):
        p = rng.choice(others) if others and rng.chance(1, 2) else rng.choice(pool)
        if p not in fl:
            fl.append(p)
    if rng.chance(1, 10) and len(fl) > 2:
        fl[rng.below(len(fl))] = 0
    return dict(mode="HS", me=me, slots=slots, fl=fl, consistent=consistent)


def dq_steal_refill(ns, home=0):
    """corpus scenario: elements on the home sub-queue are taken by one dequeue from every other shepherd (their last_consumed
    then names the home shepherd); one element is placed on every other sub-queue; the home shepherd drains until NULL"""
    ops = ["%de%d" % (home, 100 + k) for k in range(1, ns)]
    ops += ["%dd" % k for k in range(ns) if k != home]
    ops += ["%dt%d,%d" % (home, k, 200 + k) for k in range(ns) if k != home]
    ops += ["%dm" % home] + ["%dd" % home] * (ns + 1) + ["%dm" % home]
    return dict(mode="DQ", ns=ns, ops=ops, corpus="dq-steal-refill")


def gen_dq(rng, ns):
    """sequential qdqueue scripts that build advertisement / last_consumed state: fills, steals from other shepherds,
    refills elsewhere, drains from one shepherd until NULL"""
    ops = []
    seq = [0]
    out = [0]

    def val():
        seq[0] += 1
        out[0] += 1
        return 1000 + seq[0]

    def drain(sh):
        ops.extend(["%dd" % sh] * (out[0] + 2))
        out[0] = 0
    for _ in range(rng.range(1, 4)):
        phase = rng.below(5)
        if phase == 0:      # fill one sub-queue (second and later enqueues on a non-empty queue advertise), others steal
            h = rng.below(ns)
            for _ in range(rng.range(1, ns + 3)):
                ops.append("%de%d" % (h, val()))
            for k in rng.shuffle(range(ns)):
                if k != h and rng.chance(3, 4):
                    ops.extend(["%dd" % k] * rng.range(1, 2)); out[0] = max(0, out[0] - 1)
        elif phase == 1:    # refill elsewhere with enqueue_there
            src = rng.below(ns)
            for k in rng.shuffle(range(ns)):
                if rng.chance(2, 3):
                    for _ in range(rng.range(1, 3)):
                        ops.append("%dt%d,%d" % (src, k, val()))
        elif phase == 2:    # random mix
            for _ in range(rng.range(3, 14)):
                sh = rng.below(ns)
                k = rng.weighted([("e", 35), ("t", 20), ("d", 35), ("m", 10)])
                if k == "e":
                    ops.append("%de%d" % (sh, val()))
                elif k == "t":
                    ops.append("%dt%d,%d" % (sh, rng.below(ns), val()))
                else:
                    ops.append("%d%s" % (sh, k))
        elif phase == 3:    # drain from one shepherd until NULL, then look again
            sh = rng.below(ns)
            ops.append("%dm" % sh); drain(sh); ops.append("%dm" % sh)
        else:               # every shepherd dequeues once (round of steals), then empties
            for k in rng.shuffle(range(ns)):
                ops.append("%dd" % k)
            ops.append("%dm" % rng.below(ns))
    sh = rng.below(ns)
    drain(sh)
    ops.append("%dm" % sh)
    return dict(mode="DQ", ns=ns, ops=ops)


def dq_oracle(c, lines):
    """sequential (one operation at a time) => exact: a dequeue returns the head of some sub-queue (its own one when that is
    non-empty), NULL only when every sub-queue is empty; enqueues append; nothing else changes; this is the acceptance
    condition of Dq.v (attempts = own :: arbitrary extras ++ complete allsheps pass) read sequentially"""
    if not lines or lines[-1] != "F" or not lines[0].startswith("S "):
        return "hang or crash"
    def qs_of(l):
        return [[int(x) for x in seg.split()] for seg in l.split("|")[1:]]
    cur = qs_of(lines[0])
    ns = len(cur)
    rs = lines[1:-1]
    if len(rs) != len(c["ops"]):
        return "%d results for %d operations" % (len(rs), len(c["ops"]))
    enq, deq = [], []
    for op, l in zip(c["ops"], rs):
        h = l.split("|")[0].split()
        if h[1] == "CONFIG":
            return "configuration"
        act, kind, res = int(h[1]), h[2], int(h[3])
        new = qs_of(l)
        exp = [list(q) for q in cur]
        body = op.lstrip("0123456789")
        if kind in "et":
            v = int(body[1:].split(",")[-1])
            tgt = int(body[1:].split(",")[0]) if kind == "t" else act
            if res != 0:
                return "%s returned %d" % (op, res)
            exp[tgt].append(v); enq.append(v)
        elif kind == "d":
            if res == 0:
                if any(cur):
                    return "dequeue on shepherd %d returned NULL while sub-queues hold %s (operation %s, sequential run)" % (
                        act, [q for q in cur if q], op)
            else:
                src = [i for i in range(ns) if cur[i] and cur[i][0] == res]
                if not src:
                    return "dequeue returned %d which is not at the head of any sub-queue %s" % (res, cur)
                if cur[act] and src[0] != act and act not in src:
                    return "dequeue on shepherd %d passed over its own non-empty sub-queue" % act
                i = act if act in src else src[0]
                exp[i].pop(0)
                if res in deq:
                    return "element %d delivered twice" % res
                deq.append(res)
        elif kind == "m":
            if res == 0 and not any(cur):
                return "qdqueue_empty = 0 with every sub-queue empty"
            if res == 1 and cur[act]:
                return "qdqueue_empty = 1 on shepherd %d whose own sub-queue holds %s" % (act, cur[act])
        if new != exp:
            return "after %s the sub-queues are %s, expected %s" % (op, new, exp)
        cur = new
    if any(cur):
        return "after the final drain %s remain queued" % [q for q in cur if q]
    if sorted(deq) != sorted(enq):
        return "delivered elements differ from enqueued ones"
    return None


def gen_m1(rng, n):
    cases = []
    for e in [0, 1, 2, 7, 8, 9, 63, 64, 65, 127, 128, 129, 4096, (1 << 32) - 10, (1 << 32) + 5]:
        cases.append(dict(mode="SC", e=e))
    for _ in range(n // 8):
        cases.append(dict(mode="SC", e=rng.choice([rng.below(300), rng.below(70000)])))
    ptrs = [0, LO, LO + 16, LO + (1 << 31) - 16, LO + (1 << 31), LO + (1 << 31) + 16, LO + (1 << 32), HI, HI + 64, 0x55550000a010, 0x7ffff7a00010]
    for _ in range(n):
        a = rng.choice(ptrs) if rng.chance(2, 3) else rng.below(1 << 47)
        b = rng.choice(ptrs) if rng.chance(2, 3) else (a + rng.range(-40, 40) * 16 if a > 1000 else rng.below(1 << 47))
        cases.append(dict(mode="VC", a=a, b=max(0, b)))
    for _ in range(n):
        ln = rng.range(2, 24)
        base = rng.choice([16, LO])
        l = sorted(set(base + 16 * rng.below(64) for _ in range(ln)))
        if rng.chance(1, 3):
            l = [0, 0] + l
        if rng.chance(1, 8):
            l = rng.shuffle(l)
        if len(l) < 2:
            continue
        c = rng.below(4)
        x = l[0] if c == 0 else l[-1] if c == 1 else rng.choice(l) if c == 2 else base + 16 * rng.below(64) + 8
        cases.append(dict(mode="BS", len=len(l), x=x, l=l))
    return cases


# ---------------------------------------------------------------------------------------------- lines
def h_line(c):
    m = c["mode"]
    if m == "SC":
        return "SC %d" % c["e"]
    if m == "VC":
        return "VC %d %d" % (c["a"], c["b"])
    if m == "BS":
        return "BS %d %d | %s" % (c["len"], c["x"], " ".join(map(str, c["l"])))
    if m == "HS":
        return "HS %d | %s | %s" % (c["me"], " | ".join(" ".join(map(str, s)) for s in c["slots"]), " ".join(map(str, c["fl"])))
    if m == "SW":
        return "SW %d %d %d | %s | %s | %s" % (c["elements"], c["override"], c["cap"], " ".join(c["pp"]), " ".join(c["cp"]), c["sched"])
    if m == "LF":
        return "LF %d %d | %s | %s" % (c["cap"], c["hi"], " | ".join(" ".join(p) for p in c["progs"]), c["sched"])
    if m == "DQ":
        return "DQ | " + " ".join(c["ops"])
    if m == "M4":
        return "M4 %d %d %d %d %d %d %d" % (c["kind"], c["nprod"], c["ncons"], c["per"], c["blocking"], c["ring"], c["pert"])
    raise ValueError(m)


def d_line(c, cw, ps):
    m = c["mode"]
    if m == "SC":
        return "SC %d %d %d" % (cw, ps, c["e"])
    if m == "SW":
        return "SW %d %d %d %d %d | %s | %s | %s" % (c["elements"], c["override"], c["cap"], cw, ps, " ".join(c["pp"]), " ".join(c["cp"]), c["sched"])
    if m == "LF":
        return "LF %d | %s | %s" % (c["cap"], " | ".join(" ".join(p) for p in c["progs"]), c["sched"])
    return h_line(c)


def split_cases(cases, lines):
    """cut an output stream into per-case line lists: single-line modes take one line, SW/LF/M4 run up to their F line"""
    out, pos = [], 0
    for c in cases:
        if pos >= len(lines):
            out.append(None)
            continue
        if c["mode"] in ("SW", "LF", "M4", "DQ"):
            j = pos
            while j < len(lines) and not lines[j].startswith("F") and lines[j] != "TIMEOUT":
                j += 1
            if j >= len(lines) or lines[j] == "TIMEOUT":
                out.append(lines[pos:j + 1] + ["INCOMPLETE"])
                pos = len(lines)
            else:
                out.append(lines[pos:j + 1])
                pos = j + 1
        else:
            out.append([lines[pos]])
            pos += 1
    return out


# ---------------------------------------------------------------------------------------------- oracles (the property on the implementation's own trace)
def sw_oracle(c, lines):
    """dequeued sequence is at every moment a prefix of the successfully enqueued sequence; NULL/empty only when nothing
    completed is undelivered"""
    if lines is None or lines[-1] == "INCOMPLETE":
        return "hang or crash"
    enq, deq = [], []
    idx = [0, 0]
    prog = [c["pp"], c["cp"]]
    for l in lines:
        p = l.split()
        if p[0] != "g" or len(p) < 3 or p[2] != "END":
            continue
        t = int(p[1]); r = p[3]
        if idx[t] >= len(prog[t]):
            return "more results than operations"
        op = prog[t][idx[t]]; idx[t] += 1
        if op[0] in "eE":
            if r == "i0":
                enq.append(int(op[1:]))
            elif op[0] == "E":
                return "enqueue_blocking returned %s" % r
        elif op[0] in "dD":
            v = int(r[1:])
            if v == 0 and op[0] == "d":
                if len(deq) < len(enq):
                    return "dequeue returned NULL while %d completed element(s) were undelivered" % (len(enq) - len(deq))
                continue
            deq.append(v)
            if len(deq) > len(enq) or enq[len(deq) - 1] != v:
                return "%s returned %d, not the next enqueued element (enqueued %s, dequeued before %s)" % (
                    "dequeue_blocking" if op[0] == "D" else "dequeue", v, enq[:len(deq) + 1], deq[:-1])
        elif op[0] == "m" and r == "i1" and t == 1 and len(deq) < len(enq):
            # (the consumer's own test: nothing can be delivered concurrently)
            return "empty() = 1 on the consumer with %d completed element(s) undelivered" % (len(enq) - len(deq))
    return None


def lf_oracle(c, lines):
    if lines is None or lines[-1] == "INCOMPLETE":
        return "hang or crash"
    nt = len(c["progs"])
    idx = [0] * nt
    started = set()          # enqueue values whose call has begun
    completed = []           # values whose enqueue returned
    delivered = []           # values returned by dequeues
    per_cons = [dict() for _ in range(nt)]
    mid = [False] * nt
    snap = [None] * nt
    contents = []
    for l in lines:
        p = l.split("|")
        g = p[0].split()
        if g[0] != "g" or g[2] == "-":
            continue
        t = int(g[1])
        if idx[t] >= len(c["progs"][t]):
            return "more steps than operations"
        op = c["progs"][t][idx[t]]
        if not mid[t]:
            mid[t] = True
            if op[0] == "e":
                started.add(int(op[1:]))
            if op[0] == "m":
                snap[t] = set(completed) - set(delivered)
        if len(p) >= 3:
            if "CYCLE" in p[2]:
                return "queue chain became cyclic"
            contents = [int(x) for x in p[2].split()]
        if g[2] == "END":
            mid[t] = False; idx[t] += 1
            r = g[3]
            if op[0] == "e" and r == "i0":
                completed.append(int(op[1:]))
            elif op[0] == "d" and r != "p0":
                v = int(r[1:])
                if v not in started:
                    return "dequeue returned %d which was never enqueued" % v
                if v in delivered:
                    return "element %d delivered twice" % v
                delivered.append(v)
                prod, s = v >> 20, v & 0xFFFFF
                if per_cons[t].get(prod, 0) >= s:
                    return "consumer %d received producer %d's element %d after %d" % (t, prod, s, per_cons[t][prod])
                per_cons[t][prod] = s
            elif op[0] == "d" and r == "p0":
                pass
            elif op[0] == "m" and r == "i1":
                left = [v for v in snap[t] if v in contents]
                if left:
                    return "empty() = 1 while %s (enqueue completed before the test began) is still in the queue" % left[:3]
    if lines[-1].startswith("F") and not lines[-1].split("|")[1].split():
        # everybody finished: nothing lost
        if sorted(delivered + contents) != sorted(completed):
            lost = sorted(set(completed) - set(delivered) - set(contents))
            return "elements lost: %s" % lost[:5] if lost else "delivered+remaining differs from enqueued"
    return None


def m4_oracle(c, lines):
    if lines is None or not lines or lines[-1] == "INCOMPLETE" or not lines[-1].startswith("F |"):
        return "hang or crash", None
    F = lines[-1].split()
    f = dict(zip(F[2::2], F[3::2]))
    hi = int(f.get("hi", 0))
    seen = set()
    total = c["nprod"] * c["per"]
    for l in lines[:-1]:
        head, _, body = l.partition(":")
        hp = head.split()
        if hp[0] != "C":
            continue
        if int(hp[hp.index("ebad") + 1]) != 0:
            return "emptiness test reported empty while a completed enqueue was undelivered (%s times)" % hp[hp.index("ebad") + 1], hi
        last = {}
        for tok in body.split():
            a, b = tok.split(".")
            a, b = int(a), int(b)
            if not (0 <= a < c["nprod"] and 0 <= b < c["per"]):
                return "dequeue returned %s which was never enqueued" % tok, hi
            if (a, b) in seen:
                return "element %s delivered twice" % tok, hi
            seen.add((a, b))
            if c["kind"] != 2:
                if last.get(a, -1) >= b:
                    return "consumer %s received producer %d's element %d after %d" % (hp[1], a, b, last[a]), hi
                last[a] = b
    if int(f["late"]) != 0:
        return "a consumer saw NULL after the producers had finished while %s element(s) were still queued" % f["late"], hi
    if len(seen) != total or int(f["delivered"]) != total:
        return "%d of %d elements delivered after drain" % (len(seen), total), hi
    if int(f["efinal"]) != 1:
        return "emptiness test reports non-empty on a drained queue", hi
    return None, hi


# ---------------------------------------------------------------------------------------------- run
def run_harness(exe, cases, ns, nw=1, timeout=300):
    rc, out, err = core.run_lines(exe, [h_line(c) for c in cases] + ["Q"], timeout=timeout, env=core.qenv(ns, nw, stack=65536))
    if not out or not out[0].startswith("H "):
        raise core.BuildError("c15 harness did not start on %dx%d: rc=%s %s %s" % (ns, nw, rc, out[:2], err[-500:]))
    return out[0].split(), [norm(l) for l in out[1:]], rc


def run_model(drv, cases, cw, ps):
    rc, out, err = core.run_lines(drv, [d_line(c, cw, ps) for c in cases], timeout=600)
    return [norm(l) for l in out]


def grants(lines):
    return [l for l in (lines or []) if l.startswith("g ") or l.startswith("S ")]


def stuck_of(fline, pos):
    p = fline.split("|")
    return p[pos].split() if len(p) > pos else ["?"]


def nontrivial_sw(lines):
    """a thread was preempted in the middle of an operation"""
    last, mid = None, {0: False, 1: False}
    for l in lines:
        p = l.split()
        if p[0] != "g" or p[2] == "-":
            continue
        t = int(p[1])
        if last is not None and last != t and mid[last]:
            return True
        mid[t] = p[2] != "END"
        last = t
    return False


def nontrivial_lf(lines):
    """some operation had to retry or help (two HZ0 of one thread without an END in between, dequeuers excepted: HZ0 HZ1)"""
    since = {}
    for l in lines:
        p = l.split()
        if p[0] != "g" or p[2] == "-":
            continue
        t = p[1]
        if p[2] == "END":
            since[t] = 0
        elif p[2] == "HZ0":
            since[t] = since.get(t, 0) + 1
            if since[t] >= 3:
                return True
    return False


def run(ctx):
    rng = ctx.rng
    quick = ctx.tier == "quick"
    timing = {}
    t0 = time.time()
    _gen.regen(ctx, ["Hazard", "Swsr"])      # Gen/*.v regenerated from the source + Properties_Gen_*.v (tools/ctrans.py)
    pr = ctx.coq_properties("Properties/Properties_C15.v")
    timing["coq"] = round(time.time() - t0, 1); t0 = time.time()
    exe = ctx.link("c15_queues", ["c15_queues.c"], exclude=EXCLUDE)
    drv = ctx.model_driver("c15_driver")
    timing["build"] = round(time.time() - t0, 1); t0 = time.time()

    mismatches = []      # (what, case-dict)
    rejects = []         # (signature|None, why, case-dict)   oracle verdicts on the implementation's behaviour
    evals = 0
    nontriv = set()
    hist = {}
    samples = []
    stats = dict(sw_wraps=0, sw_stuck=0, lf_scans=0, lf_reuse=0, hs_far_pointers=0, skipped_after_stuck=0, dq_ops=0, dq_acceptor_queries=0, m4_elements=0)

    def bump(k):
        hist[k] = hist.get(k, 0) + 1

    # ------------------------------------------------ M1 (3 workers) + SW + LF(K=2) on 3 shepherds; LF(K=3) + HS on 4
    for ns in (3, 4):
        K = ns - 1
        r = rng.fork()
        cases = []
        if ns == 3:
            cases += [c for c in load_corpus() if c["mode"] != "DQ"]
            cases += gen_m1(r, 150 if quick else 1500)
            cases += [gen_sw(r) for _ in range(100 if quick else 1500)]
            cases += [gen_sw(r, big=True) for _ in range(3 if quick else 25)]
        hdr0, _, _ = run_harness(exe, [], ns)
        flmax, cw, ps = int(hdr0[3]), int(hdr0[4]), int(hdr0[5])
        # regression inputs of the hazard-pointer defects fixed by e07a9b8 / 38d5aa8: protected pointer with bit 31 set
        # (sorted to index 0 by the truncating comparator), pointers 2^32 apart, protected pointer alone at index 0
        cases += [dict(mode="HS", me=0, slots=[[0, 0], [HI + 0x40, 0]] + [[0, 0]] * (ns - 2), fl=[HI + 0x40], consistent=False),
                  dict(mode="HS", me=1, slots=[[LO, LO + (1 << 32)], [0, 0]] + [[HI, LO + 16]] * (ns - 2), fl=[LO + (1 << 32), HI, LO + 32, LO], consistent=False),
                  dict(mode="HS", me=ns - 1, slots=[[HI + 16 * i, LO + 16 * i] for i in range(ns - 1)] + [[5, 6]], fl=[HI, LO, HI + 16, 7], consistent=False),
                  dict(mode="BS", len=4, x=1, l=[1, 2, 3, 4]), dict(mode="BS", len=2, x=LO, l=[LO, HI]),
                  dict(mode="BS", len=3, x=HI, l=[LO, LO + 16, HI])]
        cases += [gen_hs(r, ns, flmax) for _ in range(60 if quick else 600)]
        cases += [gen_lf(r, K, not quick) for _ in range(40 if quick else 500)]
        hdr, hout, rc = run_harness(exe, cases, ns, timeout=900)
        mout = run_model(drv, cases, cw, ps)
        himpl = split_cases(cases, hout)
        # the model prints nothing for M4 and one F line for SW/LF as well: same splitter
        hmod = split_cases(cases, mout)
        after_stuck = False
        for c, il, ml in zip(cases, himpl, hmod):
            m = c["mode"]
            tag = dict(c, config="%dx1" % ns)
            if il is None and after_stuck:
                stats["skipped_after_stuck"] += 1      # the harness process ends after an lfq case with parked tasks
                continue
            evals += 1
            bump(m)
            if m == "LF" and il and il[-1].startswith("F") and stuck_of(il[-1], 1):
                after_stuck = True
            if il is None or ml is None:
                mismatches.append(("%s: no output (harness died, rc=%s)" % (m, rc), tag))
                rejects.append((None, "hang or crash of the real code", tag))
                continue
            if m in ("SC", "VC", "BS"):
                if il != ml:
                    mismatches.append(("%s impl %s model %s" % (m, il, ml), tag))
                if m == "BS" and c["x"] in c["l"][:c["len"]] and il == ["BS 0"] and sorted(c["l"]) == c["l"]:
                    rejects.append((None, "binary_search does not find the element at index %d of a sorted list" % c["l"].index(c["x"]), tag))
                continue
            if m == "HS":
                mp = ml[0].split("|")
                ip = il[0].split("|")
                if len(ip) < 3 or len(mp) < 3:
                    mismatches.append(("HS: impl %s model %s" % (il, ml), tag)); continue
                kept, freed = ip[1].split(), ip[2].split()
                prot = set(str(p) for w, s in enumerate(c["slots"]) if w != c["me"] for p in s if p)
                bad = [p for p in freed if p in prot]
                if [x.split() for x in mp[1:3]] != [kept, freed]:
                    mismatches.append(("hazardous_scan impl kept/freed %s model %s" % (ip[1:], mp[1:]), tag))
                if bad:
                    rejects.append((None, "hazardous_scan freed %s although another worker's hazard slot names it" % bad, tag))
                elif len(freed) and len(kept):
                    nontriv.add(("HS", h_line(c)))
                if not c.get("consistent", True):
                    stats["hs_far_pointers"] += 1
                continue
            # ---- M3
            ig, mg = grants(il), grants(ml)
            d = core.first_diff(ig, mg)
            inc = il[-1] == "INCOMPLETE"
            istuck = None if inc else stuck_of(il[-1], 1)
            mstuck = stuck_of(ml[-1], 3)
            agree = d is None and not inc and istuck == mstuck
            why = sw_oracle(c, il) if m == "SW" else lf_oracle(c, il)
            if not agree and m == "LF" and not inc:
                # The hazard validation of the real code compares ADDRESSES: it falls through on a node that was freed, handed out again
                # and became q->tail / q->head again, where the fresh-id model Lfq.v (ids) predicts a retry.  Reference for such a case is
                # the reclaiming model CQueues/LfqReclaim.v (theorem lfqr_refines_lfq: that step is matched by 4 steps of Lfq.v): re-run
                # the case in LR mode; only if that replay (every grant: kinds, chain addresses, pool, hazard slots, retired lists) and
                # the oracles accept it, the LF difference is resolved.  A real defect also differs from LfqReclaim.v and stays a mismatch.
                from . import _c15_ext
                ok_lr, _n = _c15_ext.lf_recheck(ctx, exe, c, ns)
                if ok_lr:
                    agree = True
                    stats["lf_resolved_by_reclaiming_model"] = stats.get("lf_resolved_by_reclaiming_model", 0) + 1
            if not agree:
                mismatches.append(("%s micro-step replay: first difference at grant %s: impl %r model %r; stuck impl %s model %s" % (
                    m, d, ig[d] if d is not None and d < len(ig) else None, mg[d] if d is not None and d < len(mg) else None, istuck, mstuck),
                    dict(tag, impl=il[max(0, (d or 0) - 3):(d or 0) + 3], model=ml[max(0, (d or 0) - 3):(d or 0) + 3])))
            if why:
                rejects.append((None, why, dict(tag, impl_tail=il[-8:])))
            if m == "SW":
                if nontrivial_sw(il):
                    nontriv.add(("SW", h_line(c)))
                if istuck:
                    stats["sw_stuck"] += 1
                tails = [int(l.split("|")[1].split()[1]) for l in il if l.startswith("g ") and len(l.split("|")) > 1 and len(l.split("|")[1].split()) > 1]
                if any(b < a for a, b in zip(tails, tails[1:])):
                    stats["sw_wraps"] += 1
            else:
                if nontrivial_lf(il):
                    nontriv.add(("LF", h_line(c)))
                fparts = il[-1].split("|")
                if len(fparts) > 2:
                    w = fparts[2].split()
                    if int(w[w.index("frees") + 1]) > 0:
                        stats["lf_scans"] += 1
                    if int(w[w.index("reuses") + 1]) > 0:
                        stats["lf_reuse"] += 1
            if len(samples) < 4 and agree and m in ("SW", "LF") and len(ig) > 20:
                samples.append(dict(script=h_line(c)[:300], grants=len(ig), last=il[-2:]))

    timing["m1_m3"] = round(time.time() - t0, 1); t0 = time.time()
    # ------------------------------------------------ M2-style sequential qdqueue scripts on 3..5 shepherds x 1 worker.  Dq.v abstracts the
    # advertisement / last_consumed heuristics, so WHICH other sub-queue a steal takes from is not predicted: every dequeue is
    # judged by the extracted acceptor Dq.seq_deq_ok (NULL only if all sub-queues are empty; own head first; else some head), the
    # evolution of the white-box sub-queue dumps is checked exactly
    for ns in (3, 4, 5):
        r = rng.fork()
        cases = [c for c in load_corpus() if c["mode"] == "DQ" and c.get("ns") == ns]
        cases += [x for x in (dq_steal_refill(ns, h) for h in range(ns)) if x["ops"] not in [c["ops"] for c in cases]]
        cases += [gen_dq(r, ns) for _ in range(40 if quick else 400)]
        hdr, hout, rc = run_harness(exe, cases, ns, timeout=600)
        himpl = split_cases(cases, hout)
        # every dequeue step is judged by the extracted acceptor Dq.seq_deq_ok on the sub-queues dumped before the step
        q_lines, q_where = [], []
        for ci, il in enumerate(himpl):
            if not il or il[-1] != "F":
                continue
            for k in range(1, len(il) - 1):
                h = il[k].split("|")[0].split()
                if len(h) >= 4 and h[2] == "d":
                    q_lines.append("DS %s %s |%s" % (h[1], h[3], il[k - 1].split("|", 1)[1]))
                    q_where.append((ci, k))
        rcq, qout, qerr = core.run_lines(drv, q_lines, timeout=300) if q_lines else (0, [], "")
        if len(qout) != len(q_lines):
            mismatches.append(("model driver answered %d of %d DS queries" % (len(qout), len(q_lines)), dict(config="%dx1" % ns)))
        refused = {}
        for (ci, k), a in zip(q_where, qout):
            if a.strip() != "DS 1":
                refused.setdefault(ci, k)
        stats["dq_acceptor_queries"] += len(q_lines)
        for ci, (c, il) in enumerate(zip(cases, himpl)):
            evals += 1
            bump("DQ")
            tag = dict(c, config="%dx1" % ns)
            why = dq_oracle(c, il)
            if ci in refused and not why:
                why = "Dq.seq_deq_ok refuses step %d: %s" % (refused[ci], il[refused[ci]])
            if why:
                rejects.append((None, "sequential qdqueue script on %d shepherds: %s" % (ns, why), dict(tag, impl_tail=(il or [])[-6:])))
            else:
                steals = sum(1 for o, l in zip(c["ops"], (il or [])[1:]) if o.endswith("d") and l.split()[3] != "0"
                             and l.split()[1] != o[:len(o) - 1])
                if any(o.endswith("d") for o in c["ops"]) and len(c["ops"]) > 6:
                    nontriv.add(("DQ", h_line(c)))
                stats["dq_ops"] += len(c["ops"])
    timing["dq"] = round(time.time() - t0, 1); t0 = time.time()
    # ------------------------------------------------ M4: free-running tasks
    m4_cfg = [(1, 1), (2, 2), (4, 1)]
    per = 2000 if quick else 20000
    for (ns, nw) in m4_cfg:
        r = rng.fork()
        cases = []
        for blocking in (0, 1):
            cases.append(dict(mode="M4", kind=0, nprod=1, ncons=1, per=per, blocking=blocking, ring=r.choice([1, 100]), pert=r.below(3)))
        for (np_, nc) in ((1, 1), (2, 2), (3, 1)) + (((1, 3),) if not quick else ()):
            cases.append(dict(mode="M4", kind=1, nprod=np_, ncons=nc, per=per, blocking=0, ring=0, pert=r.below(3)))
        cases.append(dict(mode="M4", kind=2, nprod=2, ncons=2, per=per // 2, blocking=0, ring=0, pert=r.below(3)))
        if not quick:
            cases.append(dict(mode="M4", kind=2, nprod=3, ncons=3, per=per // 2, blocking=0, ring=0, pert=1))
        # qdqueue's allsheps arrays (hypothesis alls_ok of Dq.v)
        rc, out, err = core.run_lines(exe, ["DA", "Q"], timeout=60, env=core.qenv(ns, nw, stack=65536))
        da = [l for l in out if l.startswith("DA")]
        if da:
            parts = da[0].split("|")
            n = int(parts[0].split()[1])
            ok = len(parts) - 1 == n and all(sorted(map(int, parts[1 + i].split())) == [j for j in range(n) if j != i] for i in range(n))
            evals += 1
            if not ok:
                mismatches.append(("qdqueue allsheps arrays do not name every other shepherd exactly once (alls_ok): %s" % da[0], dict(config="%dx%d" % (ns, nw))))
        else:
            mismatches.append(("qdqueue_create failed", dict(config="%dx%d" % (ns, nw))))
        for c in cases:        # one process per case: a hang or crash is attributed to the case
            rc, out, err = core.run_lines(exe, [h_line(c), "Q"], timeout=200, env=core.qenv(ns, nw, stack=65536))
            lines = [norm(l) for l in out[1:]]
            evals += 1
            bump("M4")
            tag = dict(c, config="%dx%d" % (ns, nw))
            why, hi = m4_oracle(c, lines if lines and lines[-1].startswith("F |") else None)
            if why:
                rejects.append((None, "free-running %s on %dx%d: %s" % (["qswsrqueue", "qlfqueue", "qdqueue"][c["kind"]], ns, nw, why), tag))
            else:
                stats["m4_elements"] += c["nprod"] * c["per"]
                if ns * nw > 1:
                    nontriv.add(("M4", ns, nw, h_line(c)))

    timing["m4"] = round(time.time() - t0, 1)
    # ------------------------------------------------ verdict
    ctx.cov.update(timing_s=timing,
        evaluations=evals, distinct_nontrivial=len(nontriv), samples=samples,
        rule="M1: create sizes around cache-line multiples, void_cmp on pointer pairs near/far/2^31/2^32 apart, binary_search with the "
             "target at index 0 / last / absent, hazardous_scan on 3-4 workers' slots; M3: swsr scripts on rings of 1..7 and 64/128 slots "
             "(wrapping), lfq scripts for 2-3 threads with run-ahead prefixes so that scans and node reuse occur; non-trivial = swsr case "
             "in which a thread was preempted inside an operation, lfq case in which an operation retried/helped, scan case with both "
             "kept and freed pointers, free-running case on more than one worker",
        traces_validated_against_impl=evals, input_distribution=hist, configs=["3x1", "4x1"] + ["%dx%d" % c for c in m4_cfg],
        correspondence_mismatches=len(mismatches), stats=stats)
    ctx.assumptions += [
        "sequential consistency (fences are schedule points, not modelled as reordering barriers)",
        "M3 granularity: plain loads/stores between two interposed operations run in one grant (DESIGN.md section 4, M3); "
        "the theorems quantify over the finer single-access interleavings",
        "Lfq.v abstracts node reclamation (fresh ids); reuse is covered by Hazard.v + M3 on the real hazard pointer code with a LIFO node arena",
        "qdqueue advertisement/last_consumed heuristics abstracted as arbitrary extra attempts (Dq.v)"]
    broken = bool(mismatches) or not pr["ok"]
    if broken:
        what = ("correspondence model/implementation broken (%d cases): %s" % (len(mismatches), mismatches[0][0][:300])) if mismatches else \
               "theorems in %s no longer check" % pr["file"]
        if rejects:
            sig, why, case = rejects[0]
            ctx.violation("broken+input", what + "; failing input: " + why,
                          {"failing_input": case, "reason": why, "first_mismatch": mismatches[0] if mismatches else None,
                           "coq_log": pr["log"][-1500:]})
        else:
            ctx.violation("broken", what, {"theorem_or_correspondence": mismatches[0][0] if mismatches else pr["file"],
                                           "first_mismatch": mismatches[0] if mismatches else None, "coq_log": pr["log"][-1500:]}, no_input=True)
    else:
        for sig, why, case in rejects[:3]:
            ctx.violation("unlisted:" + why.split()[0], why, case)
    from . import _c15_ext
    _c15_ext.run_ext(ctx, quick)     # extension H: qlfqueue with reclamation (LfqReclaim.v) + qdqueue micro-steps (DqMicro.v), M3


def replay(ctx, path):
    j = json.load(open(path))
    print(json.dumps(j, indent=1)[:3000])
    rp = j.get("replay", {})
    case = rp.get("failing_input") or (rp.get("first_mismatch") or [None, None])[1] or rp
    if not isinstance(case, dict) or "mode" not in case:
        return run(ctx)
    exe = ctx.link("c15_queues", ["c15_queues.c"], exclude=EXCLUDE)
    drv = ctx.model_driver("c15_driver")
    cfg = case.get("config", "3x1").split("x")
    case = {k: v for k, v in case.items() if k not in ("config", "impl", "model", "impl_tail")}
    hdr, hout, rc = run_harness(exe, [case], int(cfg[0]), int(cfg[1]))
    print("--- implementation (%s):" % os.environ.get("VERIF_REPO", "/repo"))
    print("\n".join(hout[-40:]))
    if case["mode"] not in ("M4", "DQ"):
        mout = run_model(drv, [case], int(hdr[4]), int(hdr[5]))
        print("--- model:")
        print("\n".join(mout[-40:]))
        d = core.first_diff(grants(hout), grants(mout))
        print("--- first difference at grant:", d)
    why = {"SW": sw_oracle, "LF": lf_oracle, "DQ": dq_oracle}.get(case["mode"], lambda c, l: None)(case, hout)
    if case["mode"] == "M4":
        why = m4_oracle(case, hout)[0]
    print("--- oracle:", why)
    if why:
        ctx.violation("replay", why, case)
