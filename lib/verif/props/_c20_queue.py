"""C20 extension P: the job queue of the blocking-call subsystem and its proxy pthreads (src/io.c) under arbitrary schedules.
Model: coq/theories/Io/QueueMicro.v (micro-step machine: workers enqueueing, proxies with lock / timed wait / dequeue / call /
hand-back, on-demand proxy creation, the shutdown function); theorems: Properties/Properties_C20_queue.v.
Tie (M3 at schedule-point granularity): harness/c/c20_queue.c includes the working tree's io.c with QTHREAD_LOCK / QTHREAD_UNLOCK /
QTHREAD_COND_SIGNAL / pthread_cond_timedwait / pthread_create / pthread_exit / qthread_incr / the fences / read / the hand-back
interposed; the REAL enqueue, proxy-thread, process-call and stopwork functions run as pthreads under a baton, the outcome of every
timed wait (ETIMEDOUT / woken) and the waiter a signal wakes are chosen by the schedule; after every grant the kinds of all
threads, the lock owner, the queue (walk head -> tail), tail, length, io_worker_count, proxy_exit, the calls executed and the tasks
handed back are printed; the extracted machine (ocaml/bin/c20queue_driver) executes the same schedule and the same fair
completion; the lines must be identical.
Oracle (searches the failing input when the tie or a proof breaks, and classifies findings): lock discipline (self-deadlock,
unlock by a non-owner, wait without the lock, thread finished holding the lock), queue well-formedness at every schedule
point, every job called once and handed back once after its call, io_worker_count within [0, max] and equal to the live proxies
at the end, nothing stuck at the end of the fair completion."""
import json
import os
from concurrent.futures import ThreadPoolExecutor
from .. import core

SIG_SHUTDOWN = "shutdown-hang-proxy-exit-without-decrement"


def cmd(c):
    w = ["case", str(c["max"]), "1" if c["fin"] else "0", str(len(c["jobs"]))]
    for js in c["jobs"]:
        w.append(str(len(js)))
        w += [str(j) for j in js]
    w.append(str(len(c["sched"])))
    for (t, ch) in c["sched"]:
        w += [str(t), str(ch)]
    return " ".join(w)


def njobs(c):
    return sum(len(js) for js in c["jobs"])


def load_corpus():
    p = os.path.join(core.VERIF, "corpus", "C20", "queue_cases.json")
    if os.path.exists(p):
        return json.load(open(p))
    return []


# ------------------------------------------------------------------ generator
def gen_case(rng, fin=False):
    W = rng.choice([1, 2, 2, 3])
    per = [rng.choice([1, 1, 2, 3]) for _ in range(W)]
    if rng.chance(1, 6):
        per[rng.below(W)] = 0
    if sum(per) == 0:
        per[0] = 1
    ids = rng.shuffle(list(range(sum(per))))
    jobs, k = [], 0
    for n in per:
        jobs.append(ids[k:k + n])
        k += n
    nj = sum(per)
    mx = rng.choice([1, 1, 2, 2, 3, 10])
    first_proxy = W + (1 if fin else 0)
    nT = first_proxy + min(nj, 5)
    kind = rng.choice(["random", "random", "bursts", "workers-first", "proxy-eager", "timeout-storm", "signal-race", "exit-race"])
    L = rng.range(10, 40 + 25 * nj)
    ch = lambda: rng.choice([0, 0, 1, 1, 2, 3])
    s = []
    if kind == "random":
        s = [(rng.below(nT), ch()) for _ in range(L)]
    elif kind == "bursts":
        while len(s) < L:
            t = rng.below(nT)
            s += [(t, ch()) for _ in range(rng.range(1, 8))]
    elif kind == "workers-first":
        for w in rng.shuffle(list(range(W))):
            s += [(w, ch())] * (6 * max(1, len(jobs[w])))
        s += [(first_proxy + rng.below(max(1, nT - first_proxy)), ch()) for _ in range(L)]
    elif kind == "proxy-eager":          # proxies time out and leave between the enqueues: exit / re-creation
        while len(s) < L:
            s += [(rng.below(W), 0)] * rng.range(1, 5)
            p = first_proxy + rng.below(max(1, nT - first_proxy))
            s += [(p, 0)] * rng.range(3, 14)
    elif kind == "timeout-storm":        # every waiter times out as soon as it waits, interleaved with single worker steps
        while len(s) < L:
            for p in range(first_proxy, nT):
                s.append((p, 0))
            s.append((rng.below(W), 0))
    elif kind == "signal-race":          # one worker step at a time against waiters that time out / wake spuriously in between
        while len(s) < L:
            s.append((rng.below(W), rng.below(3)))
            s.append((first_proxy + rng.below(max(1, nT - first_proxy)), rng.below(2)))
            if rng.chance(1, 3):
                s += [(first_proxy + rng.below(max(1, nT - first_proxy)), 1)] * 2
    else:                                # exit-race: a proxy is driven to the edge of leaving, then a worker tries to enqueue
        while len(s) < L:
            p = first_proxy + rng.below(max(1, nT - first_proxy))
            s += [(p, 0)] * rng.range(4, 9)
            s += [(rng.below(W), 0)] * rng.range(1, 3)
            s += [(p, 0)] * rng.range(1, 3)
    if fin:
        # the finalizing thread gets its turn here and there (it is enabled only once every task was handed back)
        s2 = []
        for e in s:
            s2.append(e)
            if rng.chance(1, 5):
                s2.append((W, 0))
        s = s2
    return {"name": "gen-" + kind, "max": mx, "fin": fin, "jobs": jobs, "sched": s}


# ------------------------------------------------------------------ observation lines
def parse_line(line):
    """-> (list of obs dicts, end reason) or None"""
    if not line.startswith("R ;"):
        return None
    parts = [x.strip() for x in line.split(";")[1:]]
    obs, end = [], None
    for p in parts:
        if p.startswith("end"):
            end = p.split()[1] if len(p.split()) > 1 else "?"
            continue
        w = p.split()
        d = {"tag": w[0]}
        for x in w[1:]:
            if "=" in x:
                a, b = x.split("=", 1)
                d[a] = b
        obs.append(d)
    return obs, end


def _ids(s):
    return [] if s in ("-", "", None) else s.split(".")


def oracle(c, line):
    """the property on the implementation's own behaviour; -> None (accepted) or (class, reason)"""
    if line.startswith("TIMEOUT"):
        return ("hang", "the real threads never reached their next schedule point (a real thread blocked or looped inside one step)")
    if line.startswith("CRASH") or line.startswith("ERR"):
        return ("crash", "the real code crashed: " + line[:60])
    pr = parse_line(line)
    if pr is None:
        return ("noresult", "no result (%s)" % line[:60])
    obs, end = pr
    nj = njobs(c)
    for k, o in enumerate(obs):
        fl = o.get("fl", "-")
        if fl != "-":
            f = fl.split(",")[0]
            name, who = f.rsplit(":", 1)
            why = {"self-deadlock": "thread %s waits for theQueue.lock while it holds the lock itself (an unlock is missing on the path it took)" % who,
                   "unlock-by-non-owner": "thread %s unlocks theQueue.lock without holding it" % who,
                   "wait-without-lock": "thread %s calls pthread_cond_timedwait without holding theQueue.lock" % who,
                   "finished-holding-lock": "thread %s returned / exited while holding theQueue.lock" % who,
                   "lock-granted-while-held": "two threads inside theQueue.lock",
                   "ret-not-stored": "the task of job %s was handed back before the call's result was stored" % who,
                   "next-not-cleared": "job %s handed back with a stale next pointer" % who}.get(name, fl)
            return (name, "%s (after schedule entry %d)" % (why, k))
        q, tl = _ids(o.get("q")), o.get("tl")
        try:
            ln, cnt = int(o.get("len", "0")), int(o.get("cnt", "0"))
        except ValueError:
            return ("noresult", "unparsable observation")
        if (not q) != (tl == "-") or (q and q[-1] != tl) or ln != len(q) or len(set(q)) != len(q) or len(q) > nj:
            return ("queue-malformed", "queue malformed after schedule entry %d: nodes reachable from head = [%s], tail = %s, length = %d" %
                    (k, ",".join(q), tl, ln))
        ca, bk = _ids(o.get("ca")), _ids(o.get("bk"))
        if len(set(ca)) != len(ca):
            return ("called-twice", "a job's blocking call was executed twice: calls = [%s]" % ",".join(ca))
        if len(set(bk)) != len(bk):
            return ("resumed-twice", "a task was handed back twice: hand-backs = [%s]" % ",".join(bk))
        if any(b not in ca for b in bk):
            return ("resumed-before-call", "a task was handed back before its call was executed")
        if cnt < 0 or cnt > c["max"]:
            return ("count-range", "io_worker_count = %d outside [0, io_worker_max = %d] after schedule entry %d" % (cnt, c["max"], k))
    if not obs:
        return ("noresult", "no observation")
    last = obs[-1]
    kinds = last.get("k", "").split(",")
    W = len(c["jobs"])
    bk = _ids(last.get("bk"))
    if len(bk) != nj:
        return ("jobs-stuck", "at the end of the fair completion (%s) %d of %d tasks were handed back; queue = [%s], io_worker_count = %s, threads = %s" %
                (end, len(bk), nj, ",".join(_ids(last.get("q"))), last.get("cnt"), last.get("k")))
    if end != "quiet" and not c["fin"]:
        return ("not-quiescent", "the threads do not come to rest (%s): %s" % (end, last.get("k")))
    proxies = kinds[W + (1 if c["fin"] else 0):]
    live = sum(1 for x in proxies if x != "X")
    if not c["fin"] and int(last.get("cnt", "0")) != live:
        return ("count-drift", "at rest io_worker_count = %s but %d proxies are alive" % (last.get("cnt"), live))
    if c["fin"] and kinds[W] != "D":
        if kinds[W] == "M" and live == 0 and all(x == "D" for x in kinds[:W]) and last.get("cnt") != "0":
            return (SIG_SHUTDOWN, "the shutdown function spins for ever on io_worker_count = %s: every proxy has exited, the last one through the "
                                  "loop test on proxy_exit, which does not decrement the count" % last.get("cnt"))
        return ("shutdown-stuck", "the shutdown function does not finish (%s): threads = %s, io_worker_count = %s" % (end, last.get("k"), last.get("cnt")))
    return None


def desc(c, extra=None):
    W = len(c["jobs"])
    d = {"case": c.get("name", "?"), "io_worker_max": c["max"], "finalize_thread": bool(c["fin"]),
         "jobs_per_worker": c["jobs"], "thread_ids": "0..%d workers%s, then proxies in creation order" % (W - 1, (", %d finalizer" % W) if c["fin"] else ""),
         "schedule_(thread,choice)": [list(x) for x in c["sched"][:300]],
         "choice": "timed wait: 0 = ETIMEDOUT, other = woken without signal; signal: index of the waiter it wakes",
         "harness_command": cmd(c)[:6000]}
    if extra:
        d.update(extra)
    return d


def first_diff_obs(io, mo):
    a, b = [x.strip() for x in io.split(";")], [x.strip() for x in mo.split(";")]
    k = core.first_diff(a, b)
    if k is None:
        return None
    return {"entry": k - 1, "impl": a[k] if k < len(a) else None, "model": b[k] if k < len(b) else None,
            "before": a[k - 1] if k >= 1 else None}


def run_queue(ctx, quick):
    rng = ctx.rng.fork()
    pr = ctx.coq_properties("Properties/Properties_C20_queue.v")
    ok, log = ctx.coq_make(["theories/Io/ExtractQueue.vo"])
    if not ok:
        raise core.BuildError("Io/ExtractQueue.v does not compile:\n" + log[-2000:])
    exe = ctx.link("c20_queue", ["c20_queue.c"], exclude=["io.c"])
    drv = ctx.model_driver("c20queue_driver")
    cases = [dict(c) for c in load_corpus()]
    for c in cases:
        c["sched"] = [tuple(x) for x in c["sched"]]
    ncorp = len(cases)
    n_gen, n_fin = (160, 12) if quick else (2500, 150)
    for _ in range(n_gen):
        cases.append(gen_case(rng, fin=False))
    for _ in range(n_fin):
        cases.append(gen_case(rng, fin=True))
    lines = [cmd(c) for c in cases]
    pool = ThreadPoolExecutor(max_workers=1)
    mfut = pool.submit(core.run_lines, drv, lines, 1200)
    rc, iout, ierr = core.run_lines(exe, lines + ["Q"], timeout=1800)
    rc2, mout, merr = mfut.result()
    if len(mout) != len(lines):
        raise core.BuildError("c20queue model driver failed: rc=%s, %d of %d answers; %s" % (rc2, len(mout), len(lines), merr[-300:]))
    while len(iout) < len(lines):
        iout.append("CRASH harness-died rc=%s" % rc)
    mism, ofail, known = [], [], []
    nontrivial = set()
    hist, ends = {}, {}
    units = 0
    samples = []
    for c, io, mo in zip(cases, iout, mout):
        hist[c.get("name", "?")] = hist.get(c.get("name", "?"), 0) + 1
        n_obs = mo.count(";")
        units += n_obs
        agree = (io == mo)
        verdict = oracle(c, io)
        pm = parse_line(mo)
        ends[(pm[1] if pm else "?")] = ends.get((pm[1] if pm else "?"), 0) + 1
        if pm:
            kinds = set()
            for o in pm[0]:
                kinds.update(o.get("k", "").split(","))
            # non-trivial: several threads really interleaved and the wait machinery was exercised
            if len(c["jobs"]) + (1 if c["fin"] else 0) < len(pm[0][-1].get("k", "").split(",")) and ("Z" in kinds) and n_obs > 20:
                nontrivial.add(cmd(c))
            if len(samples) < 4 and "RT" in kinds and "R0" in kinds and len(c["sched"]) > 30:
                samples.append({"case": c.get("name"), "io_worker_max": c["max"], "jobs_per_worker": c["jobs"], "schedule_entries": len(c["sched"]),
                                "observations": n_obs, "final": pm[0][-1].get("k"), "end": pm[1]})
        if not agree:
            mism.append(dict(desc(c), first_difference=first_diff_obs(io, mo)))
            if verdict is not None:
                ofail.append((verdict, c))
        elif verdict is not None:
            # machine and code agree on a behaviour the property oracle rejects: the machine's theorems say this cannot happen
            mism.append(dict(desc(c), first_difference="machine and code agree, property oracle rejects: " + verdict[1]))
            ofail.append((verdict, c))
        if verdict is not None and verdict[0] == SIG_SHUTDOWN:
            known.append((verdict, c))
    ctx.cov["queue_micro"] = {
        "evaluations": len(cases), "corpus_cases": ncorp, "distinct_nontrivial": len(nontrivial), "schedule_points_compared": units,
        "rule": "non-trivial = at least one proxy was created, some proxy blocked in the timed wait and more than 20 observations; after every "
                "grant the kinds of all threads, lock owner, queue walk, tail, length, io_worker_count, proxy_exit, calls and hand-backs are "
                "compared with the extracted machine",
        "input_distribution": hist, "ends": ends, "mismatches": len(mism), "samples": samples,
        "shutdown_hang_cases": len(known), "finalizer_cases": sum(1 for c in cases if c["fin"])}
    ctx.cov["evaluations"] = ctx.cov.get("evaluations", 0) + len(cases)
    ctx.cov["distinct_nontrivial"] = ctx.cov.get("distinct_nontrivial", 0) + len(nontrivial)
    ctx.cov["traces_validated_against_impl"] = ctx.cov.get("traces_validated_against_impl", 0) + len(cases) - len(mism)
    ctx.assumptions += ["job queue / proxies under schedules: the schedule points of the correspondence are the interposed calls (lock, unlock, "
                        "signal, timed wait entry / wake-up / re-acquisition, pthread_create, the counter updates, the fences, the proxied call, "
                        "the hand-back); plain loads/stores between two of them run together with the preceding point (in the machine they are "
                        "separate steps and the theorems cover every finer interleaving); mutex and condition variable are simulated with "
                        "pthread semantics (any waiter may be woken, time-outs and spurious wake-ups at any moment)",
                        "finalize is called only after every submitted task was handed back (F_Set guard); io_worker_max >= 1"]
    if not mism and pr["ok"]:
        return
    what = ("job queue / proxies: real code and micro-step machine disagree (%d cases, first: %s)" % (len(mism), mism[0]["case"])) if mism else \
           "theorems in %s no longer check" % pr["file"]
    if not ofail:
        # search: the oracle over the whole batch (agreeing cases included)
        for c, io in zip(cases, iout):
            v = oracle(c, io)
            if v is not None:
                ofail.append((v, c))
                break
    if ofail:
        # prefer the shortest failing schedule
        ofail.sort(key=lambda x: len(x[1]["sched"]))
        (cls, why), c = ofail[0]
        # the class of the fixed defect aa38ba9 keeps the signature it was reported under
        ctx.violation(SIG_SHUTDOWN if cls == SIG_SHUTDOWN else "queue:" + cls, what + "; failing input: " + why,
                      {"failing_input": desc(c), "reason": why, "first_mismatch": mism[0] if mism else None, "coq_log": pr["log"][-1500:]})
    else:
        ctx.violation("queue-broken", what, {"theorem_or_correspondence": ("real io.c queue/proxy code != Io/QueueMicro machine on " + mism[0]["case"])
                                             if mism else pr["file"], "first_mismatch": mism[0] if mism else None,
                                             "coq_log": pr["log"][-1500:]}, no_input=True)
