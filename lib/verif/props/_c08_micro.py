"""C08 extension E: pointer layer completed + lock-level micro-step layer of the sherwood thread queue.

Theorems: coq/theories/Properties/Properties_C08_ptr.v (pointer layer: steal scan loop, surplus cut, dequeue_specific refine
the list layer; micro layer: lock mutex, refinement of the atomic list-level operations, peek safety, no stuck state).
Tie:  (a) M1, pointer shape: the real queue operations (c08_tqueue m1p: forward walk by next, backward walk by prev, head,
          tail, both counters after every command) against the extracted pointer-level machine PtrScan.pm_step, exact compare;
      (b) M3: baton over 2-4 real pthreads registered as fake workers of two fabricated shepherds, schedule points at the
          interposed QTHREAD_TRYLOCK_LOCK/TRY/UNLOCK, the CAS on shepherd->stealing, SPINLOCK_BODY; after every grant the
          pending access kind, results and the dump of both queues (counters, stealing flag, lock owner, contents) must equal
          the model's run_to_sp on the same schedule.
"""
import os
import re
import time
from .. import core

SUB = "threadqueues/sherwood_threadqueues.c"


# ----------------------------------------------------------------------------- (a) pointer shape
def gen_ptr_script(rng, model, nops, base):
    """state-aware generator (the list model co-process supplies the state): only commands whose real execution is one
    pointer-level operation: E Y S X C always; G when the owner path returns a task directly; T when qthread_steal takes
    its first victim.  Aims at: runs of stealable nodes broken by unstealable ones, chunk 0/1/2/3/7, steal reaching the
    tail / starting at the head, 0/1/2-element queues, dequeue_specific of head / middle / tail / absent value."""
    n = rng.choice([2, 2, 3, 3, 4])
    w = rng.choice([1, 2, 2])
    chunk = rng.choice([0, 0, 0, 1, 2, 3, 7])
    script, out = [], []
    nexttid = [1]
    st = {"qs": [], "mccoy": set()}

    def send(line):
        r = model.ask(line)
        script.append(line)
        out.append(r)
        st["qs"] = base.parse_line(r)[2]
        return r

    def enq(kind, s, fl=None):
        t = nexttid[0]
        nexttid[0] += 1
        if fl is None:
            r = rng.below(100)
            fl = 3 if r < 3 else (1 if r < 40 else 0)
        if fl == 3:
            st["mccoy"].add(t)
        send("%s %d %d %d %d" % (kind, s, t, fl, rng.below(4)))

    send("I %d %d %d" % (n, w, chunk))
    i = 0
    while i < nops:
        i += 1
        kind = rng.weighted([("E", 26), ("Y", 8), ("B", 6), ("G", 14), ("S", 16), ("T", 12), ("X", 10), ("C", 3), ("DR", 5)])
        s = rng.below(n)
        qs = st["qs"]
        if kind in ("E", "Y"):
            enq(kind, s)
        elif kind == "B":
            for _ in range(rng.range(3, 10)):
                enq("Y" if rng.chance(1, 6) else "E", s, 1 if rng.chance(1, 3) else 0)
                i += 1
        elif kind in ("G", "DR"):
            for _ in range(1 if kind == "G" else rng.range(1, 6)):
                items = st["qs"][s]["items"] if st["qs"] else []
                if not items:
                    break
                wk = rng.below(w)
                packed = s * w + wk
                tail = items[-1][0]
                if tail in st["mccoy"] and packed != 0:
                    if len(items) < 2 or items[-2][0] in st["mccoy"]:
                        break
                send("G %d %d 1" % (s, wk))
                i += 1
        elif kind == "S":
            h, v = rng.below(n), rng.below(n)
            cands = [j for j, q in enumerate(qs) if q["stl"] > 0]
            if cands and rng.chance(4, 5):
                v = rng.choice(cands)
            send("S %d %d %d" % (h, v, 1 if rng.chance(1, 12) else 0))
        elif kind == "T":
            cands = [j for j in range(n) if qs and qs[(j + 1) % n]["stl"] > 0 and qs[j]["stealing"] == 0]
            if cands:
                send("T %d -" % rng.choice(cands))
        elif kind == "X":
            send("X %d %d" % (s, rng.below(5)))
        elif kind == "C":
            send("C %d" % rng.choice([0, 0, 1, 2, 3, 5, 50]))
    return script


def ptr_oracle(script, impl):
    """the property itself on the implementation's own pointer dump: the backward walk is the mirror image of the forward
    walk, head/tail are its ends, both counters are exact, no task id is dropped or duplicated by a command"""
    prev = None
    for k, (cmd, line) in enumerate(zip(script, impl)):
        if line.startswith("TIMEOUT") or line.startswith("CRASH") or "|" not in line:
            return k, "the real code hung or crashed on `%s`" % cmd
        head, aud = line.split("|", 1)
        res = head.split()[1:]
        allt = []
        for m in re.finditer(r"q(\d+)\[(-?\d+),(-?\d+)\] H=(\S+) T=(\S+) F:((?: \d+:[01])*)(?: CYCLE)? B:((?: \d+)*)( CYCLE)?", aud):
            fw = [(int(a), int(b)) for a, b in (x.split(":") for x in m.group(6).split())]
            bw = [int(x) for x in m.group(7).split()]
            qn = m.group(1)
            if "CYCLE" in m.group(0):
                return k, "queue %s: the next or prev chain is cyclic after `%s`" % (qn, cmd)
            if [t for t, _ in fw][::-1] != bw:
                return k, "queue %s after `%s`: the walk along prev from the tail %s is not the mirror image of the walk along next from the head %s" % (
                    qn, cmd, bw, [t for t, _ in fw])
            if (m.group(4) != (str(fw[0][0]) if fw else "-")) or (m.group(5) != (str(fw[-1][0]) if fw else "-")):
                return k, "queue %s after `%s`: head/tail (%s,%s) are not the ends of the chain %s" % (qn, cmd, m.group(4), m.group(5), [t for t, _ in fw])
            if int(m.group(2)) != len(fw) or int(m.group(3)) != sum(b for _, b in fw):
                return k, "queue %s after `%s`: counters (%s,%s) but the chain has %d nodes, %d stealable" % (
                    qn, cmd, m.group(2), m.group(3), len(fw), sum(b for _, b in fw))
            allt += [t for t, _ in fw]
        c = cmd.split()
        if prev is not None and c[0] != "I":
            added = [int(c[2])] if c[0] in ("E", "Y") else []
            removed = [int(x) for x in res if x.isdigit()] if c[0] in ("G", "T") else []
            if sorted(prev + added) != sorted(allt + removed):
                return k, "task ids were dropped or duplicated by `%s`: before %s, after %s, returned %s" % (cmd, sorted(prev), sorted(allt), removed)
        prev = allt
    return None


# ----------------------------------------------------------------------------- (b) micro-step replay
def gen_micro_case(rng, aimed=None):
    """one case line + meta.  Threads: owner-side workers of shepherd 0, thieves of shepherd 1 (and sometimes of 0), remote
    enqueuers.  Schedules: random bursts plus aimed windows (peek / lock of one thread separated by whole operations of
    another: stale emptiness peek, stale qlength_stealable, trylock against a held lock, two thieves of one shepherd)."""
    nexttid = [1]

    def fresh():
        t = nexttid[0]
        nexttid[0] += 1
        return t

    def nodes(k, mccoy_ok):
        out = []
        for _ in range(k):
            r = rng.below(100)
            fl = 1 if r < 35 else 0
            out.append("%d:%d" % (fresh(), fl))
        if mccoy_ok and rng.chance(1, 6):
            out.insert(rng.below(len(out) + 1), "%d:3" % fresh())
        return out

    chunk = rng.choice([0, 0, 0, 1, 2, 3])
    dis = 1 if rng.chance(1, 5) else 0
    q0 = nodes(rng.choice([0, 1, 1, 2, 3, 4, 6]), True)
    q1 = nodes(rng.choice([0, 0, 0, 1, 2]), False)

    def enq_op():
        return "%s%d:%d:%d" % ("Y" if rng.chance(1, 4) else "E", 0 if rng.chance(3, 4) else 1, fresh(), 1 if rng.chance(1, 3) else 0)

    thr = []
    kind = aimed if aimed is not None else rng.below(6)
    if kind == 0:      # owner vs thief on a short queue (stale emptiness peek / re-check under the lock)
        thr = [(0, rng.below(2), ["D"] * rng.range(1, 3)), (1, 0, ["T"] * rng.range(1, 2))]
    elif kind == 1:    # owner, thief, remote enqueuer
        thr = [(0, 0, [rng.choice(["D", "D", enq_op()]) for _ in range(rng.range(1, 4))]), (1, 0, ["T"] * rng.range(1, 3)),
               (rng.below(2), 1, [enq_op() for _ in range(rng.range(1, 3))])]
    elif kind == 2:    # two thieves of the same shepherd (CAS on the stealing flag) + owner
        thr = [(1, 0, ["T"] * rng.range(1, 2)), (1, 1, ["T"] * rng.range(1, 2)), (0, rng.below(2), [rng.choice(["D", enq_op()]) for _ in range(rng.range(1, 3))])]
    elif kind == 3:    # thieves in both directions, each shepherd also pops
        thr = [(0, 0, [rng.choice(["D", "T", enq_op()]) for _ in range(rng.range(1, 3))]), (1, 0, [rng.choice(["D", "T", "T"]) for _ in range(rng.range(1, 3))])]
        if rng.chance(1, 2):
            thr.append((rng.below(2), 1, [enq_op() for _ in range(rng.range(1, 3))]))
    elif kind == 4:    # two owner-side workers of shepherd 0 (McCoy rule: worker 0 vs worker 1) + thief
        thr = [(0, 0, [rng.choice(["D", "D", "Y0:%d:0" % fresh()]) for _ in range(rng.range(1, 3))]), (0, 1, ["D"] * rng.range(1, 3)), (1, 0, ["T"])]
    else:              # four threads, everything
        thr = [(0, 0, [rng.choice(["D", enq_op()]) for _ in range(rng.range(1, 3))]), (1, 0, ["T"] * rng.range(1, 2)),
               (0, 1, [rng.choice(["D", enq_op(), "T"]) for _ in range(rng.range(1, 2))]), (1, 1, [rng.choice(["T", "D", enq_op()]) for _ in range(rng.range(1, 2))])]
    nt = len(thr)
    # schedule
    budget = sum(8 if o in ("T",) else 3 for _, _, ops in thr for o in ops) + 6
    sched = []
    style = rng.below(4)
    if style == 0:     # aimed window: one grant of a, then b runs for a long while, then the rest
        a = rng.below(nt)
        b = (a + 1 + rng.below(nt - 1)) % nt
        sched += [a] * rng.range(1, 2) + [b] * rng.range(4, 10) + [a] * rng.range(1, 4)
    elif style == 1:   # strict alternation
        for _ in range(budget):
            sched += list(range(nt))
    while len(sched) < budget * 2:
        t = rng.below(nt)
        sched += [t] * rng.choice([1, 1, 1, 2, 2, 3, 5])
    for _ in range(6):  # let everybody finish what can finish
        sched += list(range(nt))
    line = "MC %d %d | %s | %s | %s | %s" % (chunk, dis, " ".join(q0), " ".join(q1),
                                            " ; ".join("%d %d %s" % (h, j, " ".join(ops)) for h, j, ops in thr), " ".join(map(str, sched)))
    return line, len(sched) + 2


def split_cases(lines):
    cases, cur = [], []
    for l in lines:
        if l.startswith("S |") and cur:
            cases.append(cur)
            cur = []
        cur.append(l)
    if cur:
        cases.append(cur)
    return cases


def micro_oracle(case, out):
    """the property on the implementation's own behaviour: queues stay well linked with exact counters at every grant, no
    task id is ever in two places or returned twice, nothing is returned that was never enqueued, and when every thread has
    finished every task is either queued or was returned exactly once"""
    parts = [p.strip() for p in case.split("|")]
    init = [int(x.split(":")[0]) for x in (parts[1] + " " + parts[2]).split()]
    enq = [int(o.split(":")[1]) for g in parts[3].split(";") for o in g.split()[2:] if o[0] in "EY"]
    universe = set(init + enq)
    returned = []
    for k, l in enumerate(out):
        if l.startswith("TIMEOUT") or l.startswith("CRASH") or l == "ERR":
            return "the real code hung or crashed at grant %d (%s)" % (k, l)
        if "CORRUPT" in l:
            return "grant %d: a queue is no longer a well-formed doubly linked list: %s" % (k, l)
        if "RECOUNT" in l:
            return "grant %d: qlength / qlength_stealable differ from the contents of the queue: %s" % (k, l)
        m = re.search(r" r=(\d+)", l.split("|")[0])
        if m:
            returned.append(int(m.group(1)))
        if l.startswith("F"):
            continue
        queued = [int(x.split(":")[0]) for x in l.split("|", 1)[1].split() if re.match(r"\d+:[01]$", x)]
        every = queued + returned
        if len(set(every)) != len(every):
            return "grant %d: a task is in two places (queued twice / queued and returned / returned twice): queued %s returned %s" % (k, queued, returned)
        if not set(every) <= universe:
            return "grant %d: task ids %s were never enqueued" % (k, sorted(set(every) - universe))
    if out and out[-1].strip() == "F |" and len(out) >= 2:
        last = out[-2]
        queued = [int(x.split(":")[0]) for x in last.split("|", 1)[1].split() if re.match(r"\d+:[01]$", x)]
        lost = universe - set(queued) - set(returned)
        started_all = True      # every thread finished, so every enqueue completed
        if lost and started_all:
            return "all threads finished but tasks %s are neither queued nor returned (lost)" % sorted(lost)
    return None


def run_cases(exe, cases, timeout):
    """one harness process for many cases; a crash / hang costs only the case it happened in: that case gets a CRASH / TIMEOUT
    line after what it printed and the remaining cases are run by a fresh process (at most 6 restarts)"""
    res = []
    pos = 0
    restarts = 0
    t_end = time.time() + timeout
    while pos < len(cases):
        batch = cases[pos:pos + 500]          # a fresh process every 500 cases (every case creates new pthreads with their own pool caches)
        rc, out, err = core.run_lines(exe, batch, timeout=max(30, t_end - time.time()), env=core.qenv(1, 1, stack=65536))
        got = split_cases([l for l in out if l != "TIMEOUT"])
        complete = [c for c in got if c and c[-1].startswith("F |")]
        res += complete
        pos += len(complete)
        if len(complete) >= len(batch):
            continue
        if rc == -9 and "TIMEOUT" not in out:
            # the time budget of the whole batch ran out (slow machine), no watchdog of the harness fired (60 s per grant, 600 s per
            # case): not a hang of the code.  The remaining cases are not judged.
            res += [None] * (len(cases) - pos)
            break
        partial = got[len(complete)] if len(got) > len(complete) else []
        res.append(partial + [("TIMEOUT" if (rc == 3 or "TIMEOUT" in out) else "CRASH rc=%s" % rc)])
        pos += 1
        restarts += 1
        if restarts >= 6:
            res += [["CRASH (not run: the harness had already crashed %d times)" % restarts]] * (len(cases) - pos)
            break
    return res


def load_corpus():
    d = os.path.join(core.VERIF, "corpus", "C08")
    res = []
    if os.path.isdir(d):
        for f in sorted(os.listdir(d)):
            if f.startswith("micro_"):
                res += [l.strip() for l in open(os.path.join(d, f)) if l.startswith("MC")]
    return res


def run_micro(ctx, quick):
    from . import c08 as base
    rng = ctx.rng
    t0 = time.time()
    pr = ctx.coq_properties("Properties/Properties_C08_ptr.v")
    exe1 = ctx.link("c08_tqueue_p", ["c08_tqueue.c"], exclude=[SUB])
    exe3 = ctx.link("c08_micro", ["c08_micro.c"], exclude=[SUB])
    drv = ctx.model_driver("c08micro_driver")
    ldrv = ctx.model_driver("c08_driver")
    mism, rejects = [], []
    cov = {}
    t1 = time.time()

    # ---------------- (a) pointer shape, M1
    nscripts = 14 if quick else 120
    nops = 90 if quick else 140
    model = base.Model(ldrv)
    scripts = []
    try:
        for _ in range(nscripts):
            scripts.append(gen_ptr_script(rng.fork(), model, nops, base))
    finally:
        model.close()
    flat = [l for sc in scripts for l in sc]
    rc2, mout, err2 = core.run_lines(drv, flat, timeout=300, args=["ptr"])
    # implementation: one process; after a crash / hang the remaining scripts are run by a fresh process
    iout = []
    done = 0
    for _ in range(6):
        rest = [l for sc in scripts[done:] for l in sc]
        if not rest:
            break
        rc, o, err = core.run_lines(exe1, rest, timeout=300, env=core.qenv(1, 1, stack=65536), args=["m1p"])
        o = [l for l in o if l != "TIMEOUT"]
        if len(o) >= len(rest):
            iout += o[:len(rest)]
            done = len(scripts)
            break
        k = 0                       # the script in which the process died
        while k < len(scripts) - done and len(o) >= len(scripts[done + k]):
            iout += o[:len(scripts[done + k])]
            o = o[len(scripts[done + k]):]
            k += 1
        sc = scripts[done + k]
        iout += o + [("TIMEOUT" if rc in (3, -9) else "CRASH rc=%s" % rc)] * (len(sc) - len(o))
        done += k + 1
    rc = 0
    pos = 0
    ptr_cmds = 0
    ptr_hist = {}
    multi = 0
    for sc in scripts:
        io = iout[pos:pos + len(sc)]
        mo = mout[pos:pos + len(sc)]
        pos += len(sc)
        if len(io) < len(sc):
            io = io + ["CRASH rc=%s" % rc] * (len(sc) - len(io))
        ptr_cmds += len(sc)
        for cmd, m in zip(sc, mo):
            key = cmd.split()[0]
            nres = len(m.split("|")[0].split()) - 1
            if key == "S":
                key += ":%d" % min(nres, 3)
                multi += nres >= 2
            elif key in ("T", "X", "G"):
                key += ":task" if nres and m.split()[1].isdigit() else ":none"
            ptr_hist[key] = ptr_hist.get(key, 0) + 1
        d = core.first_diff(mo, io)
        if d is not None:
            mism.append(("ptr-shape", {"script": sc[:d + 1], "step": d, "command": sc[d], "model": mo[d][:800] if d < len(mo) else None,
                                       "impl": io[d][:800] if d < len(io) else None}))
            why = ptr_oracle(sc, io)
            if why:
                k, text = why
                rejects.append(("ptr-shape-oracle", text[:1500], {"mode": "ptr-shape", "script": sc[:k + 1], "impl": [x[:800] for x in io[:k + 1][-2:]], "model": [x[:800] for x in mo[:k + 1][-2:]], "reason": text[:1500]}))
    t2 = time.time()

    # ---------------- (b) micro-step replay, M3
    ncases = 500 if quick else 6000
    cases = load_corpus()
    ncorpus = len(cases)
    for i in range(ncases):
        cases.append(gen_micro_case(rng, aimed=(i % 6) if i < 60 else None)[0])
    ic = run_cases(exe3, cases, timeout=280 if quick else 900)
    rc4, mout3, err4 = core.run_lines(drv, cases, timeout=280 if quick else 900, args=["micro"])
    mc = split_cases(mout3)
    grants = 0
    ev = {"blocked_lock_attempt": 0, "trylock_failed": 0, "locked_recheck_found_nothing": 0, "task_returned": 0, "cas_lost": 0,
          "spin": 0, "surplus_merge": 0}
    nontrivial = 0
    not_run = 0
    for i, case in enumerate(cases):
        mo = mc[i] if i < len(mc) else []
        io = ic[i] if i < len(ic) else ["CRASH"]
        if io is None:
            not_run += 1
            continue
        grants += len(mo)
        prevk = {}
        interesting = False
        for l in mo:
            p = l.split("|")[0].split()
            if len(p) >= 3 and p[0] == "g":
                t, k = p[1], p[2]
                pk = prevk.get(t)
                if k == "LOCK" and pk == "LOCK":
                    ev["blocked_lock_attempt"] += 1
                    interesting = True
                if pk == "TRY" and k in ("SPIN", "END"):
                    ev["trylock_failed"] += 1
                    interesting = True
                if pk == "UNLOCK" and k in ("END", "SPIN") and (len(p) < 4 or p[3] == "r=NULL") and ("r=NULL" in l or k == "SPIN"):
                    ev["locked_recheck_found_nothing"] += 1
                    interesting = True
                if pk == "CAS" and k == "END":
                    ev["cas_lost"] += 1
                    interesting = True
                if k == "SPIN":
                    ev["spin"] += 1
                if pk == "UNLOCK" and k == "LOCK":
                    ev["surplus_merge"] += 1
                    interesting = True
                if len(p) >= 4 and re.match(r"r=\d+", p[3]):
                    ev["task_returned"] += 1
                prevk[t] = k
        nontrivial += interesting
        d = core.first_diff(mo, io)
        if d is not None:
            mism.append(("micro", {"case": case, "grant": d, "model": mo[d] if d < len(mo) else None, "impl": io[d] if d < len(io) else None}))
            why = micro_oracle(case, io)
            if why:
                rejects.append(("micro-oracle", why, {"mode": "micro", "case": case, "impl": io[max(0, d - 2):d + 1], "model": mo[max(0, d - 2):d + 1], "reason": why}))
    t3 = time.time()

    ctx.cov["ext_ptr_micro"] = {
        "theorem_file": pr["file"], "theorems": len(pr["theorems"]), "theorems_ok": pr["ok"],
        "ptr_shape_scripts": len(scripts), "ptr_shape_commands": ptr_cmds, "ptr_shape_distribution": ptr_hist,
        "ptr_shape_steals_of_2_or_more": multi,
        "micro_cases": len(cases) - not_run, "micro_cases_not_run_time_budget": not_run, "micro_corpus_cases": ncorpus, "micro_grants_compared": grants, "micro_events": ev,
        "micro_cases_with_contention_or_stale_peek": nontrivial,
        "seconds": {"coq+build": round(t1 - t0, 1), "ptr-shape": round(t2 - t1, 1), "micro": round(t3 - t2, 1)},
        "mismatches": len(mism)}
    ctx.cov["evaluations"] = ctx.cov.get("evaluations", 0) + ptr_cmds + grants
    ctx.cov["distinct_nontrivial"] = ctx.cov.get("distinct_nontrivial", 0) + nontrivial + multi
    ctx.cov["traces_validated_against_impl"] = ctx.cov.get("traces_validated_against_impl", 0) + ptr_cmds + grants
    ctx.assumptions += [
        "micro layer: the qlock is an abstract mutex (LOCK enabled iff free, TRY succeeds iff free); the replay builds a blocked LOCK from the tree's own "
        "QTHREAD_TRYLOCK_TRY, so the FIFO order of the ticket lock in qt_atomics.h (and a TRY that fails because a waiter holds a ticket) is not modelled",
        "micro layer: plain loads/stores (the unlocked peeks, `stealing = 0`) are separate steps of the Coq machine (theorems cover every interleaving) but "
        "cannot be interposed in the real code: the replay separates them only at LOCK/TRY/UNLOCK/CAS/SPIN/END boundaries (run_to_sp)",
        "micro layer: two shepherds; an owner dequeue is one pass of qt_scheduler_get_thread's loop (a pass that gets nothing ends the operation; the steal "
        "it would go on to is a separate operation); spawn cache, aggregation, local priority queue compiled out",
        "pointer layer: nat-indexed heap without allocation/free; FREE_TQNODE and the mpool are C14's subject"]
    if mism or not pr["ok"]:
        what = ("correspondence pointer/micro model vs implementation broken (%d cases, first: %s)" % (len(mism), mism[0][0])) if mism else \
            "theorems in %s no longer check" % pr["file"]
        if rejects:
            sig, why, rep = rejects[0]
            ctx.violation(sig, what + "; failing input: " + why, dict(rep, first_mismatch=mism[0] if mism else None, coq_log=pr["log"][-1500:]))
        else:
            ctx.violation("broken", what, {"theorem_or_correspondence": ("impl != TQueue.PtrScan / TQueue.Micro (%s)" % mism[0][0]) if mism else pr["file"],
                                           "first_mismatch": mism[0] if mism else None, "coq_log": pr["log"][-1500:]}, no_input=True)


def replay(ctx, rep):
    """./check C08 --replay <file> for the two modes of this extension"""
    from . import c08 as base
    drv = ctx.model_driver("c08micro_driver")
    if rep.get("mode") == "ptr-shape":
        exe = ctx.link("c08_tqueue_p", ["c08_tqueue.c"], exclude=[SUB])
        sc = rep["script"]
        rc, io, _ = core.run_lines(exe, sc, timeout=120, env=core.qenv(1, 1, stack=65536), args=["m1p"])
        rc2, mo, _ = core.run_lines(drv, sc, timeout=120, args=["ptr"])
        io = [l for l in io if l != "TIMEOUT"]
        io += [("TIMEOUT" if rc in (3, -9) else "CRASH rc=%s" % rc)] * (len(sc) - len(io))
        d = core.first_diff(mo, io)
        print("replay ptr-shape: first difference at step %s" % d)
        if d is not None:
            print(" command: %s\n model: %s\n impl:  %s" % (sc[d], mo[d] if d < len(mo) else None, io[d] if d < len(io) else None))
            why = ptr_oracle(sc, io)
            ctx.violation("ptr-shape-oracle" if why else "broken", why[1] if why else "impl != TQueue.PtrScan", rep, no_input=not why)
    else:
        exe = ctx.link("c08_micro", ["c08_micro.c"], exclude=[SUB])
        case = rep["case"]
        io = run_cases(exe, [case], timeout=120)[0] or []
        rc2, mo, _ = core.run_lines(drv, [case], timeout=120, args=["micro"])
        d = core.first_diff(mo, io)
        print("replay micro: first difference at grant %s" % d)
        if d is not None:
            print(" model: %s\n impl:  %s" % (mo[d] if d < len(mo) else None, io[d] if d < len(io) else None))
            why = micro_oracle(case, io)
            ctx.violation("micro-oracle" if why else "broken", why or "impl != TQueue.Micro", rep, no_input=not why)
