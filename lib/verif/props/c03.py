"""C03 syncvar_t full/empty semantics with a 60-bit payload.
Model: coq/theories/Syncvar (Model.v concrete, CellSpec.v abstract); tie: mode M2 (op-atomic schedule replay in a live
runtime, harness/c/c03_syncvar.c) against the extracted model (ocaml/c03_driver.ml)."""
import glob
import json
import os
import re
from .. import core
from . import _gen
from . import _hashmap
from . import _c03_micro
from . import _c03_free

M60 = (1 << 60) - 1
M64 = (1 << 64) - 1
OPN = ["readFF", "readFF_nb", "readFE", "readFE_nb", "writeF", "writeEF", "writeEF_nb", "fill", "empty", "incrF", "status"]
READFF, READFF_NB, READFE, READFE_NB, WRITEF, WRITEEF, WRITEEF_NB, FILL, EMPTY, INCRF, STATUS = range(11)
NEVER_BLOCKS = [READFF_NB, READFE_NB, WRITEF, WRITEEF_NB, FILL, EMPTY, INCRF, STATUS]
# calls a non-qthread pthread may make in the scripts: every operation (the library proxies them through a forked task and
# waits for it: qthread_syncvar_blocker_func, and since /repo a562144 also qthread_syncvar_nonblocker_func; the 64-bit incrF
# result comes back through the argument slot since b527f88), as long as the call does not have to wait.
EXTERNAL_OK = list(range(11))
VALUES = [0, 1, 2, 5, 1 << 59, (1 << 60) - 2, (1 << 60) - 1, 1 << 60, (1 << 60) + 1, 1 << 63, (1 << 64) - 1]
CORPUS = os.path.join(core.VERIF, "corpus", "C03")
LEVEL = "proof"
EXPLANATION = ("19 Coq theorems (Properties_C03.v) over Syncvar/Model.v, a branch-by-branch model of src/syncvar.c on the raw 64-bit word, "
               "the hash record and the LIFO waiter lists: shape invariant for every reachable state of every script (waiter bit never lost, "
               "record present iff somebody waits, no blocked operation enabled, no fault), refinement of the abstract atomic cell "
               "(CellSpec.v) step by step, wake-up clauses (all readFF + one readFE on fill-like calls, one writeEF on empty-like calls), "
               "nb twins, 60-bit round trip, overflow rejection, incrF sums; micro-step layer (word = CAS lock, every interleaving of loads/CAS/stores): lock_bit_mutex, incrF_atomic_micro.  Tie: M2 op-atomic replay of generated scripts in a live "
               "runtime against the extracted model with exact equality of return codes, values, released sets, raw words, status and "
               "waiter lists; an independent cell oracle turns any disagreement into a concrete, shrunk failing script.")


# ----------------------------------------------------------------------------------------------------------------
# The property itself, written from the property text (independent of the Coq model): an atomic full/empty cell per
# syncvar with the set of blocked operations.  Used (a) to aim the generator, (b) as the oracle on the behaviour
# OBSERVED FROM THE IMPLEMENTATION when the correspondence or a proof breaks.
# ----------------------------------------------------------------------------------------------------------------
class Cell:
    def __init__(self):
        self.full = True
        self.val = 0
        self.pend = {}          # tid -> (kind 'EF'|'FE'|'FF', value, has_dest)

    def kinds(self, k):
        return [t for t, p in self.pend.items() if p[0] == k]


class Spec:
    def __init__(self, ntasks, nvars):
        self.nt = ntasks
        self.cells = [Cell() for _ in range(nvars)]

    def blocked(self, t):
        return any(t in c.pend for c in self.cells)

    def init(self, v, kind, val):
        c = self.cells[v]
        c.full = kind in (0, 2)
        c.val = (val & M60) if kind in (2, 3) else 0

    def would_block(self, v, op):
        c = self.cells[v]
        if op in (READFF, READFE):
            return not c.full
        if op == WRITEEF:
            return c.full
        return False

    def check_step(self, t, v, op, val, hd, obs):
        """obs = parsed implementation line.  Returns None if the observed step is allowed by the property, else a reason.
        Updates the abstract state following the implementation's own choice of which waiter it released."""
        c = self.cells[v]
        if obs["kind"] == "BUSY":
            return None if self.blocked(t) else "the harness reports task %d busy but it is not blocked" % t
        if self.blocked(t):
            return "task %d is blocked but the harness let it issue a call" % t
        if obs["kind"] != "S":
            return "unexpected harness answer %s" % obs["kind"]
        ret = dict(obs["ret"])              # tid -> (rc, value or None)
        mine = ret.pop(t, None)
        if op in (WRITEF, WRITEEF, WRITEEF_NB) and val > M60:
            if mine != ("OVERFLOW", None) or obs["blocked"]:
                return "%s of a value >= 2^60 must return QTHREAD_OVERFLOW, got %s" % (OPN[op], mine)
            if ret:
                return "a rejected (overflow) write released tasks %s" % sorted(ret)
            return self.check_vars(obs, "after a rejected (overflow) write")
        needs_full = op in (READFF, READFF_NB, READFE, READFE_NB)
        needs_empty = op in (WRITEEF, WRITEEF_NB)
        enabled = (c.full or not needs_full) and (not c.full or not needs_empty)
        if not enabled:
            if op in (READFF_NB, READFE_NB, WRITEEF_NB):
                if mine != ("OPFAIL", None):
                    return "%s on a %s variable must return QTHREAD_OPFAIL, got %s" % (OPN[op], "full" if c.full else "empty", mine)
            else:
                if mine is not None:
                    return "%s returned %s although the variable is %s: it has to wait" % (OPN[op], mine, "full" if c.full else "empty")
                if t not in obs["blocked"]:
                    return "%s neither returned nor blocked" % OPN[op]
                c.pend[t] = ({READFF: "FF", READFE: "FE", WRITEEF: "EF"}[op], val, hd)
            if ret:
                return "an operation that has to wait released tasks %s" % sorted(ret)
            return self.check_vars(obs, "after an operation that had to wait")
        # enabled: takes effect atomically now
        if mine is None:
            return "%s is enabled (variable %s) but did not return" % (OPN[op], "full" if c.full else "empty")
        want = None
        if op in (READFF, READFF_NB, READFE, READFE_NB):
            want = c.val if hd else None
            if op in (READFE, READFE_NB):
                c.full = False
        elif op in (WRITEF, WRITEEF, WRITEEF_NB):
            c.val = val
            c.full = True
        elif op == FILL:
            c.full = True
        elif op == EMPTY:
            c.full = False
        elif op == INCRF:
            c.val = (c.val + val) & M60
            want = c.val            # incrF returns the new (60-bit) value
            if c.kinds("FE") or c.kinds("FF"):
                c.full = True          # incrF marks the variable full when readers are waiting (documented in CellSpec.v)
        elif op == STATUS:
            want = 1 if c.full else 0
        if mine[0] != "OK":
            return "%s is enabled but returned %s" % (OPN[op], mine[0])
        if op == INCRF:
            if mine[1] != want:
                return "incrF returned %s, the new value is %x" % ("%x" % mine[1] if mine[1] is not None else None, c.val)
        elif mine[1] != want:
            return "%s delivered %s, expected %s" % (OPN[op], mine[1], want)
        # wake-ups: a transition to full releases every readFF waiter and exactly one readFE waiter (which empties the
        # variable again); a transition to empty releases exactly one writeEF waiter (which fills it)
        for _round in range(4 * (self.nt + 1)):
            if c.full and (c.kinds("FF") or c.kinds("FE")):
                for w in c.kinds("FF"):
                    r = ret.pop(w, None)
                    if r is None:
                        return "variable became full but readFF waiter %d was not released" % w
                    if r != ("OK", c.val if c.pend[w][2] else None):
                        return "released readFF waiter %d got %s, value is %x" % (w, r, c.val)
                    del c.pend[w]
                fes = [w for w in c.kinds("FE") if w in ret]
                if c.kinds("FE"):
                    if len(fes) != 1:
                        return "variable became full with readFE waiters %s: exactly one must be released, released %s" % (c.kinds("FE"), fes)
                    w = fes[0]
                    r = ret.pop(w)
                    if r != ("OK", c.val if c.pend[w][2] else None):
                        return "released readFE waiter %d got %s, value is %x" % (w, r, c.val)
                    del c.pend[w]
                    c.full = False
            elif (not c.full) and c.kinds("EF"):
                efs = [w for w in c.kinds("EF") if w in ret]
                if len(efs) != 1:
                    return "variable became empty with writeEF waiters %s: exactly one must be released, released %s" % (c.kinds("EF"), efs)
                w = efs[0]
                r = ret.pop(w)
                if r != ("OK", None):
                    return "released writeEF waiter %d returned %s" % (w, r)
                c.val = c.pend[w][1]
                c.full = True
                del c.pend[w]
            else:
                break
        if ret:
            return "tasks %s returned although nothing enabled them" % sorted(ret)
        return self.check_vars(obs, "after %s" % OPN[op])

    def check_vars(self, obs, when):
        for i, c in enumerate(self.cells):
            o = obs["vars"][i]
            st = (o["w"] >> 1) & 7
            if o["w"] & 1:
                return "V%d left locked %s" % (i, when)
            if st > 3:
                return "V%d in undefined state %d %s" % (i, st, when)
            if (st < 2) != c.full or (o["s"] == 1) != c.full:
                return "V%d is %s (state %d, status %d) but must be %s %s" % (i, "full" if st < 2 else "empty", st, o["s"], "full" if c.full else "empty", when)
            if (o["w"] >> 4) != c.val:
                return "V%d holds %x but must hold %x %s" % (i, o["w"] >> 4, c.val, when)
            for k, nm in (("EF", "E"), ("FE", "FE"), ("FF", "FF")):
                if sorted(o[nm]) != sorted(c.kinds(k)):
                    return "V%d %s waiters are %s but tasks %s are blocked there %s" % (i, k, o[nm], sorted(c.kinds(k)), when)
            if bool(st & 1) != bool(c.pend):
                return "V%d: waiter bit is %d but blocked tasks are %s %s (the record that waiters exist is lost)" % (i, st & 1, sorted(c.pend), when)
            if bool(o["r"]) != bool(c.pend):
                return "V%d: waiter record present=%d but blocked tasks are %s %s" % (i, o["r"], sorted(c.pend), when)
            # quiescence: no blocked operation is enabled
            if c.full and (c.kinds("FE") or c.kinds("FF")):
                return "V%d is full but readers %s stay blocked %s" % (i, sorted(c.kinds("FE") + c.kinds("FF")), when)
            if not c.full and c.kinds("EF"):
                return "V%d is empty but writers %s stay blocked %s" % (i, sorted(c.kinds("EF")), when)
        return None

    def check_drain(self, obs):
        """after the drain every blocked task must have returned"""
        ret = dict(obs["ret"])
        left = [t for c in self.cells for t in c.pend]
        missing = [t for t in left if t not in ret]
        if missing:
            return "tasks %s were blocked and were never released by empty/fill" % sorted(missing)
        for i, o in enumerate(obs["vars"]):
            if o["E"] or o["FE"] or o["FF"] or o["r"] or (o["w"] >> 1) & 1:
                return "V%d still has waiters / waiter bit / record after the drain" % i
        return None


# ----------------------------------------------------------------------------------------------------------------
def parse_line(l):
    """one harness/driver output line -> dict"""
    if l.startswith("BUSY"):
        return {"kind": "BUSY"}
    if l.startswith("STUCK"):
        head, _, rest = l.partition("|")
        return {"kind": "STUCK", "tasks": list(map(int, head.split()[1:])), "vars": parse_vars(rest)}
    if not l or l[0] not in "SDI":
        return {"kind": l.split()[0] if l.split() else "EMPTY"}
    head, _, rest = l.partition("|")
    toks = head.split()
    blocked, ret = [], []
    for tk in toks[1:]:
        if tk[0] == "B":
            blocked.append(int(tk[1:]))
        elif tk[0] == "R":
            t, rc, v = tk[1:].split(":")
            ret.append((int(t), (rc, None if v == "-" else int(v, 16))))
    return {"kind": toks[0], "blocked": blocked, "ret": ret, "vars": parse_vars(rest)}


def parse_vars(rest):
    out = []
    for m in re.finditer(r"V(\d+) w=([0-9a-f]+) s=(\S+) r=(\d) E=\[([0-9,]*)\] FE=\[([0-9,]*)\] FF=\[([0-9,]*)\]", rest):
        ls = lambda s: [int(x) for x in s.split(",") if x]
        out.append({"w": int(m.group(2), 16), "s": int(m.group(3)) if m.group(3).isdigit() else -1, "r": int(m.group(4)),
                    "E": ls(m.group(5)), "FE": ls(m.group(6)), "FF": ls(m.group(7))})
    return out


def pick_value(rng):
    c = rng.below(10)
    if c < 6:
        return rng.choice(VALUES)
    if c < 8:
        return rng.next() & M60
    if c == 8:
        return rng.next() & M64
    return rng.below(100)


def gen_script(rng, quick=True):
    """-> list of command lines (N, I.., O/M.., D).  A light abstract simulation (Spec, without observations) steers the
    choice so that writeF / fill / empty / incrF / nb calls happen while tasks are blocked in writeEF, readFE, readFF."""
    nt = rng.range(2, 6)
    nv = rng.weighted([(1, 5), (2, 3), (3, 2)])
    nops = rng.range(5, 40)
    cmds = ["N %d %d" % (nt, nv)]
    sim = Spec(nt, nv)
    for v in range(nv):
        kind = rng.below(4)
        val = pick_value(rng) if kind >= 2 else 0
        if kind >= 2:
            val &= M60          # the initialisers store into a 60-bit bit-field
        cmds.append("I %d %d %x" % (v, kind, val))
        sim.init(v, kind, val)
    style = rng.below(4)        # 0 mixed, 1 reader pile-up, 2 writer pile-up, 3 incr heavy
    for _ in range(nops):
        free = [t for t in range(nt) if not sim.blocked(t)]
        v = rng.below(nv)
        c = sim.cells[v]
        hd = 0 if rng.chance(1, 6) else 1
        val = pick_value(rng)
        use_ctl = (not free) or rng.chance(1, 8)
        npend = len(c.pend)
        if use_ctl or len(free) == 1:
            # must not block: the last free task / the controller keeps the script alive
            if npend:
                op = rng.weighted([(WRITEF, 4), (FILL, 4), (EMPTY, 4), (INCRF, 4), (STATUS, 1), (READFF_NB, 2), (READFE_NB, 3), (WRITEEF_NB, 3)])
            else:
                op = rng.choice(NEVER_BLOCKS)
            if not use_ctl and not sim.would_block(v, READFE) and rng.chance(1, 3):
                op = rng.choice([READFE, READFF])
            if not use_ctl and not sim.would_block(v, WRITEEF) and rng.chance(1, 3):
                op = WRITEEF
        else:
            if npend and rng.chance(3, 5):
                op = rng.weighted([(WRITEF, 4), (FILL, 4), (EMPTY, 4), (INCRF, 4), (STATUS, 1), (READFF_NB, 1), (READFE_NB, 2), (WRITEEF_NB, 2),
                                   (READFE, 3), (READFF, 2), (WRITEEF, 3)])
            elif style == 1:
                op = rng.weighted([(READFE, 5), (READFF, 5), (EMPTY, 3), (WRITEEF, 1), (INCRF, 1), (FILL, 1)])
            elif style == 2:
                op = rng.weighted([(WRITEEF, 8), (FILL, 2), (WRITEF, 2), (READFE, 1), (EMPTY, 1)])
            elif style == 3:
                op = rng.weighted([(INCRF, 8), (READFE, 2), (READFF, 2), (EMPTY, 2), (WRITEEF, 1), (STATUS, 1)])
            else:
                op = rng.below(11)
        if op == INCRF and rng.chance(1, 2):
            val = rng.choice([1, 1, 2, 3, M60, 1 << 60, M64])
        if op == INCRF and rng.chance(1, 5):
            val = (1 << 60) - c.val + rng.choice([-1, 0, 0, 1]) if c.val else val     # land the sum on 2^60-1, 2^60, 2^60+1
        if (use_ctl or rng.chance(1, 6)) and op in EXTERNAL_OK and not sim.would_block(v, op) and rng.chance(2, 3):
            cmds.append("X %d %d %x %d" % (v, op, val, hd))
            t = nt
        elif use_ctl:
            cmds.append("M %d %d %x %d" % (v, op, val, hd))
            t = nt
        else:
            t = rng.choice(free)
            cmds.append("O %d %d %d %x %d" % (t, v, op, val, hd))
        # advance the steering simulation with the deterministic LIFO choice (only for aiming; never used for checking)
        sim_advance(sim, t, v, op, val, hd)
    cmds.append("D")
    return cmds


def sim_advance(sim, t, v, op, val, hd):
    c = sim.cells[v]
    if op in (WRITEF, WRITEEF, WRITEEF_NB) and val > M60:
        return
    if sim.would_block(v, op):
        c.pend[t] = ({READFF: "FF", READFE: "FE", WRITEEF: "EF"}[op], val, hd)
        return
    if op in (READFF_NB, READFE_NB) and not c.full:
        return
    if op == WRITEEF_NB and c.full:
        return
    if op in (READFE, READFE_NB):
        c.full = False
    elif op in (WRITEF, WRITEEF, WRITEEF_NB):
        c.val, c.full = val, True
    elif op == FILL:
        c.full = True
    elif op == EMPTY:
        c.full = False
    elif op == INCRF:
        c.val = (c.val + val) & M60
        if c.kinds("FE") or c.kinds("FF"):
            c.full = True
    if c.full and (c.kinds("FF") or c.kinds("FE")):
        for w in c.kinds("FF"):
            del c.pend[w]
        fe = c.kinds("FE")
        if fe:
            del c.pend[fe[-1]]
            c.full = False
    elif not c.full and c.kinds("EF"):
        w = c.kinds("EF")[-1]
        c.val, c.full = c.pend[w][1], True
        del c.pend[w]


def split_scripts(cmds):
    out, cur = [], []
    for c in cmds:
        if c.startswith("N ") and cur:
            out.append(cur)
            cur = []
        cur.append(c)
    if cur:
        out.append(cur)
    return out


def run_impl(exe, scripts, cfg, stuck_after=20.0, per_script_timeout=None):
    """run a batch of scripts through the harness; a script on which the harness dies (STUCK/crash/timeout) ends the
    process, the remaining scripts are run in a fresh one.  -> list of (lines, status) per script"""
    res = [None] * len(scripts)
    i = 0
    dead = 0
    env = core.qenv(cfg[0], cfg[1], stack=65536)
    while i < len(scripts):
        if dead >= 3:
            # the real code hangs / dies again and again: enough evidence, do not burn the time budget
            for k in range(i, len(scripts)):
                res[k] = ([], "not run (3 scripts already hung or died)")
            break
        batch = scripts[i:]
        lines = [c for s in batch for c in s] + ["Q"]
        rc, out, err = core.run_lines(exe, lines, timeout=120 + 0.1 * len(lines) + 3 * stuck_after, env=env, args=[str(stuck_after)])
        if not out or not out[0].startswith("H "):
            raise core.BuildError("c03 harness did not start on %dx%d: rc=%s %s" % (cfg[0], cfg[1], rc, err[-400:]))
        pos = 1
        done_all = True
        for k, s in enumerate(batch):
            got = out[pos:pos + len(s)]
            pos += len(s)
            complete = len(got) == len(s) and not any(g.startswith("STUCK") or g.startswith("STARTFAIL") for g in got)
            if complete:
                res[i + k] = (got, "ok")
            else:
                # cut at the first STUCK line if any
                cut = []
                for g in got:
                    cut.append(g)
                    if g.startswith("STUCK") or g.startswith("STARTFAIL"):
                        break
                st = "stuck" if cut and cut[-1].startswith("STUCK") else ("timeout" if rc == -9 else "died rc=%s" % rc)
                res[i + k] = (cut, st)
                i = i + k + 1
                dead += 1
                done_all = False
                break
        if done_all:
            break
    return res


def run_model(drv, scripts):
    lines = [c for s in scripts for c in s]
    rc, out, err = core.run_lines(drv, lines, timeout=600)
    if rc != 0 or len(out) != len(lines):
        raise core.BuildError("c03 model driver failed: rc=%s lines=%d/%d %s" % (rc, len(out), len(lines), err[-400:]))
    res, pos = [], 0
    for s in scripts:
        res.append(out[pos:pos + len(s)])
        pos += len(s)
    return res


def oracle_script(script, impl_lines, status):
    """the property on the implementation's observed behaviour.  -> None or (step index, reason)"""
    hdr = script[0].split()
    spec = Spec(int(hdr[1]), int(hdr[2]))
    for k, cmd in enumerate(script):
        if k >= len(impl_lines):
            return (k, "the run ended (%s) before `%s`" % (status, cmd))
        obs = parse_line(impl_lines[k])
        p = cmd.split()
        if obs["kind"] == "STUCK":
            return (k, "after `%s`: tasks %s were taken off the waiter lists (or never enqueued) and never returned: lost wake-up / hang" % (cmd, obs["tasks"]))
        if p[0] == "I":
            spec.init(int(p[1]), int(p[2]), int(p[3], 16))
            why = spec.check_vars(obs, "after initialisation")
        elif p[0] == "O":
            why = spec.check_step(int(p[1]), int(p[2]), int(p[3]), int(p[4], 16), int(p[5]), obs)
        elif p[0] in "MXY":
            why = spec.check_step(spec.nt, int(p[1]), int(p[2]), int(p[3], 16), int(p[4]), obs)
        elif p[0] == "D":
            why = spec.check_drain(obs)
        else:
            why = None
        if why:
            return (k, "step %d `%s`: %s" % (k, describe(cmd), why))
    if status != "ok":
        return (len(impl_lines), "the harness %s" % status)
    return None


def describe(cmd):
    p = cmd.split()
    if p[0] == "O":
        return "task %s: %s(V%s, 0x%s%s)" % (p[1], OPN[int(p[3])], p[2], p[4], "" if p[5] == "1" else ", dest=NULL")
    if p[0] in "MXY":
        return "%s: %s(V%s, 0x%s)" % ("controller" if p[0] == "M" else "external pthread", OPN[int(p[2])], p[1], p[3])
    return cmd


def signature_of(reason):
    for key, sig in (("waiter bit", "waiter-bit-lost"), ("never returned", "lost-wakeup"), ("was not released", "lost-wakeup"),
                     ("never released", "lost-wakeup"), ("stay blocked", "lost-wakeup"),
                     ("OVERFLOW", "overflow-not-rejected"), ("incrF returned", "incrF-value"), ("holds", "wrong-payload"), ("delivered", "wrong-payload"),
                     ("exactly one", "wrong-release-count"), ("has to wait", "completed-without-waiting"), ("OPFAIL", "nb-variant")):
        if key in reason:
            return sig
    return "cell-semantics"


def load_corpus():
    out = []
    for p in sorted(glob.glob(os.path.join(CORPUS, "*.txt"))):
        cmds = [l.strip() for l in open(p) if l.strip() and not l.startswith("#")]
        for s in split_scripts(cmds):
            out.append((os.path.basename(p), s))
    return out


def shrink(exe, drv, cfg, script, pred):
    """delta-debug the O/M lines of a script; pred(script, impl_lines, status, model_lines) -> bool (still failing)"""
    head = [c for c in script if c[0] in "NI"]
    ops = [c for c in script if c[0] in "OMXY"]

    def fails(sub):
        s = head + sub + ["D"]
        (il, stt), = run_impl(exe, [s], cfg, stuck_after=3.0)
        ml, = run_model(drv, [s])
        return pred(s, il, stt, ml)
    try:
        small = core.ddmin(ops, fails, budget=40)
    except Exception:
        small = ops
    return head + small + ["D"]


def run(ctx):
    rng = ctx.rng
    quick = ctx.tier == "quick"
    _gen.regen(ctx, ["Int60"])      # Gen/*.v regenerated from the source + Properties_Gen_*.v (tools/ctrans.py)
    pr = ctx.coq_properties("Properties/Properties_C03.v")
    exe = ctx.link("c03_syncvar", ["c03_syncvar.c"], exclude=["syncvar.c"])
    drv = ctx.model_driver("c03_driver")
    # shepherds x workers-per-shepherd.  Multi-worker shepherds (where a removed lock would show) are included since the
    # main-task scheduling fix /repo ed2589e; NxM with N,M >= 2 is ~20x slower per script (stealing between shepherds), so
    # it gets fewer scripts and a long hang watchdog (machine load must not turn into a false alarm).
    configs = ([((1, 1), 700), ((2, 1), 250), ((3, 1), 150), ((1, 4), 200), ((2, 2), 60)] if quick else
               [((1, 1), 12000), ((2, 1), 3000), ((3, 1), 2000), ((4, 1), 1500), ((6, 1), 500),
                ((1, 2), 1500), ((1, 4), 1500), ((2, 2), 600), ((3, 2), 200)])
    corpus = load_corpus()
    evals = steps = 0
    nontrivial = set()
    mismatches = []          # (cfg, name, script, k, impl, model)
    oracle_fail = []         # (cfg, name, script, impl_lines, (k, reason))
    ophist = {n: 0 for n in OPN}
    outcome = {"returned": 0, "blocked": 0, "released_by_others": 0, "OPFAIL": 0, "OVERFLOW": 0, "busy": 0, "external_calls": 0}
    samples = []
    stuck_n = 0
    for (cfg, n) in configs:
        r2 = rng.fork()
        scripts = [(nm, s) for nm, s in corpus] + [("gen", gen_script(r2, quick)) for _ in range(n)]
        impl = run_impl(exe, [s for _, s in scripts], cfg, stuck_after=60.0 if cfg[0] > 1 and cfg[1] > 1 else 20.0)
        model = run_model(drv, [s for _, s in scripts])
        for (nm, s), (il, stt), ml in zip(scripts, impl, model):
            if stt.startswith("not run"):
                stuck_n = max(stuck_n, 3)
                continue
            evals += 1
            steps += len(s)
            k = core.first_diff(il, ml)
            if k is not None or stt != "ok":
                mismatches.append((cfg, nm, s, k if k is not None else len(il), il, ml, stt))
                if stt != "ok":
                    stuck_n += 1
            why = oracle_script(s, il, stt)
            if why:
                oracle_fail.append((cfg, nm, s, il, why, stt))
            # statistics on what the run exercised (measured from the implementation's output)
            rel = 0
            for cmd, l in zip(s, il):
                p = cmd.split()
                if p[0] in "OMXY":
                    ophist[OPN[int(p[3] if p[0] == "O" else p[2])]] += 1
                    if p[0] in "XY":
                        outcome["external_calls"] += 1
                    o = parse_line(l)
                    if o["kind"] == "BUSY":
                        outcome["busy"] += 1
                        continue
                    if o["kind"] != "S":
                        continue
                    me = int(p[1]) if p[0] == "O" else int(s[0].split()[1])
                    outcome["blocked"] += len(o["blocked"])
                    for t, (rc, v) in o["ret"]:
                        if t == me:
                            outcome["returned"] += 1
                            if rc in outcome:
                                outcome[rc] += 1
                        else:
                            outcome["released_by_others"] += 1
                            rel += 1
            if rel:
                nontrivial.add((cfg, tuple(s)))
                if len(samples) < 3 and nm == "gen" and len(s) < 16:
                    samples.append({"config": list(cfg), "script": s, "impl": il})
            if stuck_n >= 3:
                break
        if stuck_n >= 3:
            ctx.notes.append("stopped early: the real code hung on 3 scripts")
            break

    ctx.cov.update(
        evaluations=evals, distinct_nontrivial=len(nontrivial), samples=samples,
        rule="script = 2-6 tasks, 1-3 syncvars, 5-40 API calls issued one at a time (M2); non-trivial = a script in which at least "
             "one blocked task was released by another task's call (writeF/fill/empty/incrF/readFE/writeEF on a variable with waiters)",
        traces_validated_against_impl=evals, api_calls=steps, op_histogram=ophist, outcomes=outcome,
        configs=[list(c) for c, _ in configs], corpus_scripts=len(corpus), correspondence_mismatches=len(mismatches),
        observables="per call: return code, delivered value, set of tasks that returned, blocked flag; per variable: raw u.w (lock bit masked), "
                    "qthread_syncvar_status, hash record present, task ids on EFQ/FEQ/FFQ in list order; exact equality with the extracted model")
    ctx.assumptions += [
        "operation-atomic granularity: each API call holds the word lock from qthread_mwaitc to its publishing store; interleavings inside a call "
        "(CAS spin, timeout, the `it got full!` re-check branches) are modelled, not exercised",
        "external (non-qthread pthread) callers are exercised for every operation, but only for calls that do not have to wait "
        "(a blocked external caller has no task id to appear under in the waiter lists)"]

    ctx.notes.append("history: incrF used to return / deliver the unreduced 64-bit sum once it reached 2^60 (found by this check, "
                     "fixed in /repo 70f90aa); regression: corpus/C03/05_incrF_wrap.txt, Syncvar/Examples.v incrF_wrap_regression")
    _hashmap.run_tier(ctx, quick)      # qt_hash (src/hashmap.c): theorems + M1 tie, see _hashmap.py
    # ---- free-running tier (extension I) ----
    ctx.coq_properties("Properties/Properties_C03_hist.v")
    _c03_free.run_free(ctx, quick)         # mode M4: generated programs on the real runtime, no controller; per-variable histories judged by the proved acceptor of Syncvar/History.v, see _c03_free.py
    # ---- end of free-running tier (extension I) ----
    # ---- micro-step tier (extension B) ----
    _c03_micro.run_micro(ctx, quick)       # ctx.coq_properties("Properties/Properties_C03_micro.v") + Syncvar/MicroAll.v replayed on the real
                                           # syncvar.c with a targeted baton, see _c03_micro.py
    # ---- end of micro-step tier (extension B) ----
    from . import _link; _link.run_link(ctx, quick, "syncvar")    # extension R: Syncvar/Model runs are accepted histories (Properties_C03_link.v + executed cross-check)
    broken = bool(mismatches) or not pr["ok"]
    if not broken and not oracle_fail:
        return
    # ---------------- something broke: look for a concrete failing input ----------------
    def replay_of(cfg, nm, s, il, ml, why, stt):
        return {"config": list(cfg), "source": nm, "script": s, "script_readable": [describe(c) for c in s],
                "implementation": il, "model": ml, "harness_status": stt, "oracle": why[1] if why else None}

    if oracle_fail:
        seen = set()
        for (cfg, nm, s, il, why, stt) in oracle_fail:
            sig = signature_of(why[1])
            if sig in seen:
                continue
            seen.add(sig)

            def still(s2, il2, st2, ml2):
                w = oracle_script(s2, il2, st2)
                return bool(w) and signature_of(w[1]) == sig
            small = shrink(exe, drv, cfg, s, still) if len(seen) <= 2 else s
            (il2, st2), = run_impl(exe, [small], cfg, stuck_after=3.0)
            ml2, = run_model(drv, [small])
            why2 = oracle_script(small, il2, st2) or why
            what = ("%s; " % ("theorems no longer check" if not pr["ok"] else "model/implementation correspondence broken in %d scripts" % len(mismatches)) if broken else
                    "model and implementation agree but the property fails; ") + why2[1]
            ctx.violation(sig, what, replay_of(cfg, nm, small, il2, ml2, why2, st2))
            if len(seen) >= 3:
                break
    else:
        if mismatches:
            cfg, nm, s, k, il, ml, stt = mismatches[0]
            small = shrink(exe, drv, cfg, s, lambda s2, il2, st2, ml2: st2 != "ok" or core.first_diff(il2, ml2) is not None)
            (il2, st2), = run_impl(exe, [small], cfg, stuck_after=3.0)
            ml2, = run_model(drv, [small])
            k2 = core.first_diff(il2, ml2)
            ctx.violation("broken", "implementation != Syncvar.Model (%d scripts); the cell-semantics oracle accepts every observed run" % len(mismatches),
                          dict(replay_of(cfg, nm, small, il2, ml2, None, st2), theorem_or_correspondence="impl != Syncvar.Model at line %s" % k2,
                               impl_line=il2[k2] if k2 is not None and k2 < len(il2) else None,
                               model_line=ml2[k2] if k2 is not None and k2 < len(ml2) else None), no_input=True)
        else:
            ctx.violation("broken", "theorems in %s no longer check" % pr["file"],
                          {"theorem_or_correspondence": pr["file"], "coq_log": pr["log"][-2000:]}, no_input=True)


def replay(ctx, path):
    j = json.load(open(path))
    r = j.get("replay", {})
    if str(j.get("signature", "")).startswith("hashmap") and r.get("script"):
        return _hashmap.replay_script(ctx, r["script"])
    if r.get("free"):                                                           # ---- free-running tier (extension I) ----
        return _c03_free.replay_file(ctx, path)
    if str(j.get("signature", "")).startswith("micro:") and r.get("probe"):     # ---- micro-step tier (extension B) ----
        return _c03_micro.replay_probe(ctx, r["probe"])
    print(json.dumps({k: r.get(k) for k in ("config", "script_readable", "oracle")}, indent=1)[:3000])
    script = r.get("script")
    if not script:
        return run(ctx)
    exe = ctx.link("c03_syncvar", ["c03_syncvar.c"], exclude=["syncvar.c"])
    drv = ctx.model_driver("c03_driver")
    cfg = tuple(r.get("config", [1, 1]))
    (il, stt), = run_impl(exe, [script], cfg, stuck_after=3.0)
    ml, = run_model(drv, [script])
    for c, a, b in zip(script, il + [""] * len(script), ml):
        print("%-28s impl : %s\n%-28s model: %s" % (c, a, "", b))
    why = oracle_script(script, il, stt)
    print("oracle:", why[1] if why else "accepts")
    if why:
        ctx.violation(signature_of(why[1]), why[1], r)
    elif core.first_diff(il, ml) is not None:
        ctx.violation("broken", "implementation != Syncvar.Model on the replayed script", r, no_input=True)
