"""C17 qarray: addressing, ownership, iteration.  Model: coq/theories/Qarray (M1 + live iteration)."""
import json
from .. import core
from . import _gen
from . import _c17_mut

PAGES = 4096
KINDS = ["iter", "iter_loop", "iter_constloop", "iter_loopaccum"]
DNAMES = ["FIXED_HASH", "FIXED_FIELDS", "ALL_SAME", "DIST", "DIST_STRIPES", "DIST_FIELDS", "DIST_RAND",
          "DIST_LEAST", "ALL_LOCAL", "ALL_RAND", "ALL_LEAST"]
ORACLE_ASSIGN = {3, 6, 7}          # DIST, DIST_RAND, DIST_LEAST: assignment is random()/tracker: read back
ORACLE_SHEP = {9, 10}              # ALL_RAND, ALL_LEAST


def approx_layout(obj, d, tight, segpages):
    """generator aiming only (not used for checking)"""
    us = obj if tight else obj + ((8 - (obj & 7)) if obj & 7 else 0)
    sb = (segpages or 16) * PAGES
    if d in (3, 4, 5, 6, 7):
        ss = sb // us
        if sb - ss * us < 4:
            ss -= 1
        return us, sb, ss
    if segpages == 0 and us > sb:
        import math
        sb = us * PAGES // math.gcd(us, PAGES)
    return us, sb, sb // us


def gen_arrays(rng, nsheps, n):
    out = []
    objs = [1, 2, 3, 4, 5, 7, 8, 9, 12, 16, 24, 31, 100, 1000, 2047, 2048, 4092, 4093, 4095, 4096, 4097, 8191, 8192, 8193]
    while len(out) < n:
        d = rng.weighted([(0, 4), (1, 3), (2, 1), (3, 2), (4, 1), (5, 1), (6, 2), (7, 1), (8, 1), (9, 1), (10, 1)])
        obj = rng.choice(objs) if rng.chance(4, 5) else rng.range(1, 70000)
        tight = rng.below(2)
        segpages = rng.choice([0, 1, 1, 2, 3, 5])
        if d in (3, 4, 5, 6, 7) and rng.chance(1, 2):
            # DIST kinds: aim at the slack rule (segment_bytes - segment_size*unit_size around 4)
            sb0 = (segpages or 16) * PAGES
            if rng.chance(1, 3):
                # unit sizes that are whole pages (the segment trimming rule has its own branch for them)
                obj = PAGES * rng.choice([1, 2, 2, 3, 4, 4, 8, 16])
                tight = rng.below(2)
            else:
                cands = [(kk, r) for r in range(0, 7) for kk in range(2, 200) if (sb0 - r) % kk == 0 and (sb0 - r) // kk >= 1]
                kk, r = rng.choice(cands)
                obj = (sb0 - r) // kk       # segment_bytes - segment_size*unit_size == r exactly
                tight = 1
        us, sb, ss = approx_layout(obj, d, tight, segpages)
        if ss < 1:
            continue            # DIST kinds with no room for an element: outside the property (DESIGN C17)
        k = rng.range(0, 3 * nsheps + 2) if rng.chance(1, 2) else rng.range(2 * nsheps, 6 * nsheps + 3)
        delta = rng.choice([0, 0, 1, -1, rng.below(max(1, ss))])
        count = max(1, k * ss + delta)
        sc = (count + ss - 1) // ss
        if sc * sb > (48 << 20) or count > 400000:
            continue
        out.append((count, obj, d, tight, segpages, ss))
    return out


def gen_ranges(rng, count, ss, n):
    rs = [(0, count)]
    for _ in range(n - 1):
        def pt():
            c = rng.below(5)
            k = rng.below(count // ss + 2)
            if c == 0:
                return k * ss
            if c == 1:
                return k * ss + 1
            if c == 2:
                return max(0, k * ss - 1)
            return rng.below(count + 1)
        a, b = min(pt(), count), min(pt(), count)
        if a > b:
            a, b = b, a
        if rng.chance(1, 6):
            b = min(count, a + rng.range(1, max(1, ss)))
        if a == b:
            if b < count:
                b += 1
            elif a > 0:
                a -= 1
        if a < b:
            rs.append((a, b))
    return rs


def parse_R(lines):
    """lines 'R shep lo:hi ...' -> {shep: [(lo,hi)...]} canonical: empty calls dropped, adjacent merged"""
    res = {}
    for l in lines:
        p = l.split()
        shep = int(p[1])
        cur = res.setdefault(shep, [])
        for x in p[2:]:
            lo, hi = map(int, x.split(":"))
            if hi <= lo:
                continue
            if cur and cur[-1][1] == lo:
                cur[-1] = (cur[-1][0], hi)
            else:
                cur.append((lo, hi))
    return {s: r for s, r in res.items() if r}


def oracle(ranges, start, stop, shepof_seg, ss, active):
    """the property itself on observed behaviour: each index of [start,stop) once, on its owner, call returned after all"""
    cnt = {}
    for shep, rs in ranges.items():
        for lo, hi in rs:
            if hi - lo > 2000000:
                return "range far outside the array: %d:%d" % (lo, hi)
            for i in range(lo, hi):
                cnt[i] = cnt.get(i, 0) + 1
                if i < start or i >= stop:
                    return "index %d outside [%d,%d) visited" % (i, start, stop)
                own = shepof_seg[i // ss] if i // ss < len(shepof_seg) else None
                if own != shep:
                    return "index %d visited on shepherd %d, owner is %s" % (i, shep, own)
    for i in range(start, stop):
        c = cnt.get(i, 0)
        if c != 1:
            return "index %d visited %d times" % (i, c)
    if active != 0:
        return "call returned while %d invocations were still running" % active
    return None


def known_class(kind, dkind, start, stop, ss, segshep, sps, extras):
    """input classes of the former findings (fixed in /repo: known_findings.json) -- nothing is excused any more"""
    return None
    if dkind in (0, 3):         # FIXED_HASH, DIST
        if start % ss != 0:
            return "strider-midsegment-start"
    if dkind == 1:
        if kind != 0:
            return "loopstrider-fixed-fields"
        # per-element strider: start inside (not at the beginning of) its shepherd's region
        s0 = segshep[start // ss]
        region_start = min(i for i, s in enumerate(segshep) if s == s0) * ss
        if start != region_start:
            return "strider-fixed-fields-midregion"
    return None


def run(ctx):
    rng = ctx.rng
    quick = ctx.tier == "quick"
    _gen.regen(ctx, ["Qarray", "Gcd"], group="C17")      # Gen/Qarray.v regenerated from the source + Properties_Gen_C17.v (tools/ctrans.py)
    pr = ctx.coq_properties("Properties/Properties_C17.v")
    exe = ctx.link("c17_qarray", ["c17_qarray.c"], exclude=["ds/qarray.c"])
    drv = ctx.model_driver("c17_driver")
    configs = [(1, 1), (2, 1), (3, 2), (4, 1)] if quick else [(1, 1), (1, 3), (2, 1), (2, 2), (3, 2), (4, 1), (4, 4), (5, 1), (7, 1), (8, 2)]
    narr = 24 if quick else 80
    nrange = 6 if quick else 14
    evals = 0
    nontrivial = set()
    samples = []
    dist_hist = {}
    mismatches = []     # correspondence failures
    oracle_fail = []    # (signature-or-None, description, case)
    for (ns, nw) in configs:
        arrays = gen_arrays(rng.fork(), ns, narr)
        script = []
        plan = []
        r2 = rng.fork()
        # corpus first: witnesses of the open findings (known_findings.json) and boundary cases
        corpus = [((81920, 1, 1, 1, 5, 20480), [(2, 40959, 81920), (1, 0, 81920)])]
        if ns >= 2:
            corpus += [((511, 16, 0, 0, 1, 256), [(1, 100, 314), (0, 100, 314), (3, 0, 511)]),
                       ((2048, 8, 1, 1, 1, 512), [(0, 100, 2048), (0, 0, 2048)])]
        fixed_its = {}
        for (arr, its0) in corpus:
            fixed_its[len(fixed_its)] = its0
        arrays = [c[0] for c in corpus] + arrays
        for ai, (count, obj, d, tight, segpages, ss) in enumerate(arrays):
            probes = sorted(set([0, count - 1, min(count - 1, ss - 1), min(count - 1, ss), min(count - 1, 2 * ss)] +
                                [r2.below(count) for _ in range(6)]))
            ranges = gen_ranges(r2, count, ss, nrange)
            its = [(r2.below(4) if j else j % 4, a, b) for j, (a, b) in enumerate(ranges)]
            its += [(k, 0, count) for k in (1, 2, 3)][: (1 if quick else 3)]
            if ai in fixed_its:
                its = fixed_its[ai] + its
            # callbacks that yield: only on small arrays (every yield is a scheduler round trip; on a loaded machine
            # the ticket locks convoy and a large array would run into the watchdog without anything being wrong)
            ye = r2.choice([0, 0, 3, 50]) if count <= 4096 else 0
            script.append("A %d %d %d %d %d" % (count, obj, d, tight, segpages))
            script.append("S")
            script.append("e " + " ".join(map(str, probes)))
            script.append("Y %d" % ye)
            for (k, a, b) in its:
                script.append("I %d %d %d" % (k, a, b))
            script.append("F")
            plan.append(((count, obj, d, tight, segpages), probes, its))
        rc, out, err = core.run_lines(exe, script + ["Q"], timeout=600, env=core.qenv(ns, nw, stack=65536))
        if not out or not out[0].startswith("H "):
            raise core.BuildError("c17 harness did not start on %dx%d: rc=%s %s" % (ns, nw, rc, err[-500:]))
        _, hs, hw, pagesize = out[0].split()
        assert int(hs) == ns, "runtime reports %s shepherds, asked %d" % (hs, ns)
        pos = 1
        mscript = []
        impl_cases = []
        dead = False
        for (acfg, probes, its) in plan:
            if dead:
                impl_cases.append(None)
                continue
            if pos + 3 >= len(out) or out[pos] == "TIMEOUT" or not out[pos].startswith("D "):
                # the real code crashed / hung / printed garbage while creating or probing this array
                dead = True
                impl_cases.append(None)
                count, obj, d, tight, segpages = acfg
                c0 = {"config": [ns, nw], "array": dict(count=count, obj_size=obj, dist=DNAMES[d], tight=tight, seg_pages=segpages),
                      "harness_rc": rc, "last_output": out[-3:], "stderr": err[-300:]}
                mismatches.append(("crash", c0))
                oracle_fail.append((None, "the real code crashed or hung (rc=%s) while creating/probing this array" % rc, c0))
                continue
            D = out[pos].split(); S = out[pos + 1].split(); E = out[pos + 2].split(); pos += 4
            iters = []
            for it in its:
                rl = []
                while pos < len(out) and out[pos].startswith("R "):
                    rl.append(out[pos]); pos += 1
                if pos >= len(out) or not out[pos].startswith(". "):
                    iters.append(("TIMEOUT", rl, None))   # hang (watchdog) or crash inside the iteration call
                    dead = True
                    break
                dot = out[pos].split(); pos += 1
                iters.append((int(dot[1]), rl, int(dot[2])))
            if not dead:
                if pos < len(out) and out[pos] == "F":
                    pos += 1
                else:
                    dead = True
                    mismatches.append(("crash", {"config": [ns, nw], "array": acfg, "where": "qarray_destroy", "harness_rc": rc}))
                    oracle_fail.append((None, "the real code crashed in qarray_destroy (rc=%s)" % rc, {"config": [ns, nw], "array": acfg}))
            impl_cases.append((D, S, E, iters))
            segshep = list(map(int, S[1:]))
            oshep = int(D[7])
            count, obj, d, tight, segpages = acfg
            mscript.append("A %d %d %d %d %d %s %d %d" % (count, obj, d, tight, segpages, pagesize, ns, oshep if d in ORACLE_SHEP else 0))
            if d in ORACLE_ASSIGN:
                mscript.append("O " + " ".join(map(str, segshep)))
            mscript.append("S")
            mscript.append("e " + " ".join(map(str, probes)))
            for (k, a, b) in its:
                mscript.append("I %d %d %d" % (k, a, b))
            mscript.append("F")
        rc2, mout, merr = core.run_lines(drv, mscript, timeout=600)
        mpos = 0
        for ci, ((acfg, probes, its), ic) in enumerate(zip(plan, impl_cases)):
            count, obj, d, tight, segpages = acfg
            case = {"config": [ns, nw], "array": dict(count=count, obj_size=obj, dist=DNAMES[d], tight=tight, seg_pages=segpages)}
            if ic is None:
                continue
            D, S, E, iters = ic
            mD = mout[mpos].split(); mpos += 1
            if d in ORACLE_ASSIGN:
                mpos += 1
            mS = mout[mpos].split(); mE = mout[mpos + 1].split(); mpos += 2
            evals += 1
            dist_hist[DNAMES[d]] = dist_hist.get(DNAMES[d], 0) + 1
            segshep = list(map(int, S[1:]))
            us, sb, ss, dk, sps, extras = (int(x) for x in D[1:7])
            # --- layout correspondence
            if D != mD:
                mismatches.append(("descriptor", dict(case, impl=D, model=mD)))
            if S != mS:
                mismatches.append(("shepof", dict(case, impl=S, model=mS)))
            if E != mE:
                mismatches.append(("elem", dict(case, impl=E, model=mE, probes=probes)))
            # --- layout oracle (the property on the implementation's own output)
            offs = list(map(int, E[1:]))
            sc = int(D[8])
            bad = None
            for i in range(len(offs)):
                if offs[i] + us > sc * sb:
                    bad = "element %d at offset %d exceeds the allocation %d" % (probes[i], offs[i], sc * sb)
                if i and offs[i] - offs[i - 1] < us * (probes[i] - probes[i - 1]) and probes[i] != probes[i - 1]:
                    bad = "elements %d,%d closer than unit_size" % (probes[i - 1], probes[i])
            if any(s >= ns for s in segshep):
                bad = "qarray_shepof returns a shepherd >= %d: %s" % (ns, segshep)
            if dk == 3 and not (ss * us <= int(D[9]) and int(D[9]) + 2 <= sb and int(D[9]) % 4 == 0):
                bad = "DIST shepherd-id slot at %s does not fit after %d elements in a %d byte segment" % (D[9], ss, sb)
            if bad:
                oracle_fail.append((None, bad, case))
            # --- iteration
            for (k, a, b), it in zip(its, iters):
                mR = []
                while mout[mpos].startswith("R "):
                    mR.append(mout[mpos]); mpos += 1
                mpos += 1
                c2 = dict(case, call=KINDS[k], start=a, stop=b, segment_size=ss, segment_shepherds=segshep if len(segshep) < 40 else segshep[:40] + ["..."])
                evals += 1
                if it[0] == "TIMEOUT":
                    mismatches.append(("iteration-hang", dict(c2, model=mR)))
                    oracle_fail.append((None, "%s never returned (120 s)" % KINDS[k], c2))
                    continue
                act, rl, acc = it
                ir = parse_R(rl); mr = parse_R(mR)
                if len(ir) >= 2:
                    nontrivial.add((ns, count, obj, d, tight, segpages, k, a, b))
                if ir != mr:
                    mismatches.append(("iteration", dict(c2, impl=rl, model=mR)))
                why = oracle(ir, a, b, segshep, ss, act)
                if why is None and k == 3 and acc != b - a:
                    # qarray_iter_loopaccum: the callback returns the number of indices of its range and acc adds, so
                    # the accumulated result of an exact iteration is the length of the range
                    why = "qarray_iter_loopaccum accumulated %d, the range has %d indices (each visited once)" % (acc, b - a)
                if why:
                    sig = known_class(k, dk, a, b, ss, segshep, sps, extras)
                    oracle_fail.append((sig, why, dict(c2, impl=rl)))
                if len(samples) < 4 and len(ir) >= 2:
                    samples.append(dict(c2, impl=rl))
            mpos += 1  # F
        if dead:
            pass
    # ---------------- verdict ----------------
    ctx.cov.update(evaluations=evals, distinct_nontrivial=len(nontrivial), samples=samples,
                   rule="arrays: 11 distribution kinds x unit sizes (tight/padded, below/above a page) x counts around segment multiples; "
                        "ranges with every alignment of start/stop to segment boundaries; non-trivial = iteration that put work on >= 2 shepherds",
                   traces_validated_against_impl=evals, input_distribution=dist_hist, configs=configs,
                   correspondence_mismatches=len(mismatches),
                   refuted_on_current_tree=["shep_slot_refuted (DIST id slot for seg_pages >= ~1366, outside the generated sizes)"])
    broken = bool(mismatches) or not pr["ok"]
    seen_known = {}
    unknown = [(w, c) for (s, w, c) in oracle_fail if s is None or core.match_known("C17", s) is None]
    for (s, w, c) in oracle_fail:
        if s is not None:
            seen_known.setdefault(s, (w, c))
    if not broken:
        # model == code everywhere: failures of the oracle are properties of the unchanged code
        for s, (w, c) in seen_known.items():
            ctx.violation(s, w, c)              # -> KNOWN-FINDING if listed, VIOLATION otherwise
        for (w, c) in unknown[:3]:
            ctx.violation("unlisted:" + w.split()[0], w, c)
    else:
        what = "correspondence model/implementation broken (%d cases)" % len(mismatches) if mismatches else \
               "theorems in %s no longer check" % pr["file"]
        if unknown:
            w, c = unknown[0]
            ctx.violation("broken+input", what + "; failing input: " + w, {"failing_input": c, "reason": w,
                          "first_mismatch": mismatches[0] if mismatches else None, "coq_log": pr["log"][-1500:]})
        else:
            ctx.violation("broken", what, {"theorem_or_correspondence": ("impl != Qarray.Model on " + mismatches[0][0]) if mismatches else pr["file"],
                          "first_mismatch": mismatches[0] if mismatches else None, "coq_log": pr["log"][-1500:],
                          "known_class_failures": {s: w for s, (w, c) in seen_known.items()}}, no_input=True)
    # extension L: the mutating entry points (set_shepof, dist_like, destroy/tracker, iter_loop_nb, elem_migrate)
    _c17_mut.run_mut(ctx, quick, ctx.coq_properties("Properties/Properties_C17_mut.v"))


def replay(ctx, path):
    j = json.load(open(path))
    print(json.dumps(j, indent=1)[:4000])
    run(ctx)
