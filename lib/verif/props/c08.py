"""C08 work conservation: stealing, yielding, queue integrity (sherwood thread queues).

Model: coq/theories/TQueue/Model.v (list layer with the code's own counters), theorems in Properties_C08.v.
Tie:  M1  real qt_threadqueue_* / qthread_steal / qt_scheduler_get_thread on fake shepherds vs the extracted model,
          exact compare of results + pointer-walk/recount audit after every command (state-aware generator);
      M4  (a) real pthreads as fake workers: concurrent enqueue/owner-dequeue/steal, conservation + final audit,
          (b) live 1x1 yield-order scenarios compared exactly with Model.sim,
          (c) live scenarios that need a steal (all workers of shepherd 0 occupied), QT_STEAL_CHUNK variants.
"""
import json
import os
import re
import subprocess
import time
from .. import core
from . import _c08_micro

SUB = "threadqueues/sherwood_threadqueues.c"
LEVEL = "proof"


# ----------------------------------------------------------------------------- parsing
def parse_line(l):
    """'G 5 | q0[1,0,0] 2:0 q1[0,0,0]' -> (tag, [res...], [queue dict...], bad-markers)"""
    if "|" not in l:
        return (l.strip(), [], [], ["noaudit"])
    head, aud = l.split("|", 1)
    hp = head.split()
    qs = []
    bad = []
    for tok in aud.split():
        m = re.match(r"q(\d+)\[(-?\d+),(-?\d+),(-?\d+)\]$", tok)
        if m:
            qs.append({"len": int(m.group(2)), "stl": int(m.group(3)), "stealing": int(m.group(4)), "items": []})
        elif re.match(r"\d+:[01]$", tok) and qs:
            a, b = tok.split(":")
            qs[-1]["items"].append((int(a), int(b)))
        else:
            bad.append(tok)
    return (hp[0] if hp else "", hp[1:], qs, bad)


class Model:
    """interactive co-process of the extracted model (used by the state-aware generator)"""

    def __init__(self, drv):
        self.p = subprocess.Popen([drv], stdin=subprocess.PIPE, stdout=subprocess.PIPE, universal_newlines=True, bufsize=1)

    def ask(self, line):
        self.p.stdin.write(line + "\n")
        self.p.stdin.flush()
        return self.p.stdout.readline().rstrip("\n")

    def close(self):
        try:
            self.p.stdin.close()
            self.p.wait(timeout=5)
        except Exception:
            self.p.kill()


# ----------------------------------------------------------------------------- M1 generator
def gen_script(rng, model, nops):
    """returns (script lines, model output lines); the generator reads the model state to aim at the
    branch conditions: mixed stealable/unstealable runs, desired = half / chunk boundaries, head/tail steals,
    empty/one-element queues, locked victims, McCoy hand-off, stealing flag 0/1/2"""
    n = rng.choice([1, 2, 2, 3, 3, 4, 5])
    w = rng.choice([1, 1, 2, 3])
    chunk = rng.choice([0, 0, 0, 1, 2, 3, 7, 100])
    script, out = [], []
    nexttid = [1]
    outpool = []
    state = {"qs": [], "mccoy": set()}

    def send(line):
        r = model.ask(line)
        script.append(line)
        out.append(r)
        tag, res, qs, bad = parse_line(r)
        state["qs"] = qs
        return tag, res

    def pick_tid():
        if outpool and rng.chance(1, 3):
            return outpool.pop(rng.below(len(outpool)))
        t = nexttid[0]
        nexttid[0] += 1
        return t

    def flags():
        r = rng.below(100)
        if r < 3:
            return 3            # McCoy (always unstealable, as in qthread_initialize)
        return 1 if r < 38 else 0

    send("I %d %d %d" % (n, w, chunk))
    i = 0
    while i < nops:
        i += 1
        kind = rng.weighted([("E", 30), ("Y", 9), ("G", 20), ("T", 12), ("S", 11), ("X", 3), ("Z", 3), ("C", 3), ("D", 1), ("B", 4), ("DR", 4), ("MC", 4)])
        s = rng.below(n)
        if kind in ("E", "Y"):
            t = pick_tid()
            f = flags()
            if f == 3:
                state["mccoy"].add(t)
            else:
                state["mccoy"].discard(t)
            send("%s %d %d %d %d" % (kind, s, t, f, rng.below(4)))
        elif kind == "B":       # burst with runs: aims the steal scan (runs of stealable nodes broken by unstealable ones)
            for _ in range(rng.range(3, 14)):
                t = pick_tid()
                state["mccoy"].discard(t)
                f = 1 if rng.chance(1, 3) else 0
                send("%s %d %d %d %d" % ("Y" if rng.chance(1, 6) else "E", s, t, f, rng.below(4)))
                i += 1
        elif kind == "MC":      # McCoy task at the tail, then pops by workers other than / equal to (shepherd 0, worker 0)
            for _ in range(rng.range(0, 3)):
                t = pick_tid()
                state["mccoy"].discard(t)
                send("E %d %d %d %d" % (s, t, 1 if rng.chance(1, 3) else 0, rng.below(4)))
                i += 1
            t = pick_tid()
            state["mccoy"].add(t)
            send("%s %d %d 3 0" % ("E" if rng.chance(3, 4) else "Y", s, t))
            for _ in range(rng.range(1, 4)):
                wk = rng.below(w)
                if rng.chance(1, 8):
                    t2 = pick_tid()
                    state["mccoy"].discard(t2)
                    send("Y %d %d 0 0" % (s, t2))
                tag, res = send("G %d %d 1" % (s, wk))
                i += 1
                if res and res[0].isdigit():
                    outpool.append(int(res[0]))
        elif kind == "DR":      # drain a queue by its owner (reaches the 2/1/0-element cases)
            for _ in range(rng.range(1, 8)):
                if not state["qs"] or not state["qs"][s]["items"]:
                    break
                tag, res = send("G %d %d 1" % (s, rng.below(w)))
                i += 1
                if res and res[0].isdigit():
                    outpool.append(int(res[0]))
                else:
                    break
        elif kind == "G":
            tag, res = send("G %d %d %d" % (s, rng.below(w), 0 if rng.chance(1, 20) else 1))
            if res and res[0].isdigit():
                outpool.append(int(res[0]))
        elif kind == "T":
            if n < 2:
                continue
            mask = "-"
            if rng.chance(1, 5):
                mask = "".join("1" if (j != s and rng.chance(1, 2)) else "0" for j in range(n))
            tag, res = send("T %d %s" % (s, mask))
            if res and res[0].isdigit():
                outpool.append(int(res[0]))
            if res and res[0] == "SPIN" and rng.chance(3, 4):
                send("Z %d 0" % s)
        elif kind == "S":
            h, v = rng.below(n), rng.below(n)
            # prefer a victim that has something stealable
            cands = [j for j, q in enumerate(state["qs"]) if q["stl"] > 0]
            if cands and rng.chance(3, 4):
                v = rng.choice(cands)
            send("S %d %d %d" % (h, v, 1 if rng.chance(1, 10) else 0))
        elif kind == "X":
            send("X %d %d" % (s, rng.below(5)))
        elif kind == "Z":
            send("Z %d %d" % (s, rng.choice([0, 0, 1, 2])))
        elif kind == "C":
            send("C %d" % rng.choice([0, 0, 1, 2, 3, 4, 5, 8, 50]))
        elif kind == "D":
            send("D 1")
            for _ in range(rng.range(1, 4)):
                s2 = rng.below(n)
                if n >= 2:
                    tag, res = send("T %d -" % s2)
                    if res and res[0].isdigit():
                        outpool.append(int(res[0]))
            send("D 0")
    # clear the flags and drain everything (end-state conservation is visible in the audit)
    for s in range(n):
        send("Z %d 0" % s)
    return script, out


# ----------------------------------------------------------------------------- M1 oracle (the property itself)
def m1_oracle(script, impl):
    """checks the implementation's own observed behaviour step by step against the property text:
    queue integrity (links, both counters), conservation of the multiset of entries, enqueue at tail /
    yielded at head / owner pops the tail, thieves take only stealable entries from an unlocked victim,
    at least one when one exists, at most the desired amount, in queue order."""
    prev = None
    chunk = 0
    nworkers = 1
    mccoys = set()
    for k, (cmd, line) in enumerate(zip(script, impl)):
        tag, res, qs, bad = parse_line(line)
        if line.startswith("TIMEOUT") or line.startswith("CRASH"):
            return k, "the real code hung or crashed on a command that terminates in the model"
        if bad:
            if any(b.startswith("NOLOCK") for b in bad):
                return k, "`%s` modified a queue without taking its lock (%s): concurrent enqueue/dequeue/steal can corrupt it" % (cmd, " ".join(bad))
            if any(b.startswith("LOCKLEAK") for b in bad):
                return k, "`%s` left a queue lock unbalanced (%s): the next operation on that queue blocks for ever" % (cmd, " ".join(bad))
            return k, "queue audit failed after `%s`: %s" % (cmd, " ".join(bad))
        for j, q in enumerate(qs):
            if q["len"] != len(q["items"]) or q["stl"] != sum(b for _, b in q["items"]):
                return k, "length accounting of queue %d is wrong after `%s`: counters (%d,%d), walk (%d,%d)" % (
                    j, cmd, q["len"], q["stl"], len(q["items"]), sum(b for _, b in q["items"]))
        c = cmd.split()
        if c[0] in ("E", "Y"):
            (mccoys.add if int(c[3]) & 2 else mccoys.discard)(int(c[2]))
        if c[0] == "I":
            nworkers = int(c[2])
            mccoys = set()
            chunk = int(c[3])
            prev = qs
            continue
        if c[0] == "C":
            chunk = int(c[1])
        if prev is not None and len(prev) == len(qs):
            before = sorted(t for q in prev for t, _ in q["items"])
            after = sorted(t for q in qs for t, _ in q["items"])
            added, removed = [], []
            if c[0] in ("E", "Y") and 0 <= int(c[1]) < len(qs):
                added = [int(c[2])]
                s = int(c[1])
                exp = prev[s]["items"] + [(int(c[2]), 1 - (int(c[3]) & 1))] if c[0] == "E" else \
                    [(int(c[2]), 1 - (int(c[3]) & 1))] + prev[s]["items"]
                if qs[s]["items"] != exp:
                    return k, "`%s` did not put the entry at the %s of queue %d" % (cmd, "tail" if c[0] == "E" else "head", s)
            if c[0] in ("G", "T") and res and res[0].isdigit():
                removed = [int(res[0])]
            if sorted(before + added) != sorted(after + removed):
                return k, "entries were dropped or duplicated by `%s`: before %s, after %s, returned %s" % (cmd, before, after, removed)
            if c[0] == "S" and 0 <= int(c[1]) < len(qs) and 0 <= int(c[2]) < len(qs):
                h, v, lk = int(c[1]), int(c[2]), int(c[3])
                stolen = [int(x) for x in res]
                vic = prev[v]
                stl_ids = [t for t, b in vic["items"] if b]
                d = chunk if chunk else max(1, vic["stl"] // 2)
                d = max(d, 1) if chunk == 0 else d
                if lk and stolen:
                    return k, "`%s`: stole from a victim whose lock was held" % cmd
                if not lk:
                    if stolen != stl_ids[:len(stolen)]:
                        return k, "`%s`: stolen %s is not a prefix of the victim's stealable entries %s" % (cmd, stolen, stl_ids)
                    if stl_ids and d > 0 and not stolen:
                        return k, "`%s`: victim had stealable entries %s but nothing was stolen" % (cmd, stl_ids)
                    if d > 0 and len(stolen) > d:
                        return k, "`%s`: stole %d entries, more than the desired %d" % (cmd, len(stolen), d)
            if c[0] == "G" and res and res[0].isdigit():
                s = int(c[1])
                own = prev[s]["items"]
                packed = s * nworkers + int(c[2])
                got = int(res[0])
                if own and got in [t for t, _ in own]:
                    tail = own[-1][0]
                    if packed != 0 and tail in mccoys and got == tail:
                        return k, "`%s`: a worker other than (shepherd 0, worker 0) took the McCoy task %d out of the queue" % (cmd, tail)
                    if packed != 0 and tail in mccoys and len(own) >= 2 and own[-2][0] not in mccoys:
                        if got != own[-2][0] or not qs[s]["items"] or qs[s]["items"][-1][0] != tail:
                            return k, "`%s`: with the McCoy task %d at the tail the worker must take the task in front of it (%d) and leave McCoy at the tail; it took %d" % (cmd, tail, own[-2][0], got)
                    if (packed == 0 or tail not in mccoys) and got != tail and not any(t in mccoys for t, _ in own):
                        return k, "`%s`: owner did not take the tail entry %d of its queue (took %d)" % (cmd, tail, got)
        prev = qs
    return None


# ----------------------------------------------------------------------------- live 1x1 programs
def gen_prog_case(rng):
    """random task programs for the 1x1 yield-order scenario; main = tid 0"""
    ntasks = rng.range(1, 9)
    progs = {}
    spawned = set()

    def body(depth):
        acts = []
        for _ in range(rng.range(0, 5)):
            r = rng.below(100)
            if r < 45:
                acts.append("y")
            elif r < 55:
                acts.append("n")
            elif r < 75 and depth < 2:
                c = len(progs) + len(pending) + 1
                if c <= ntasks + 6 and c not in spawned:
                    spawned.add(c)
                    pending.append((c, depth + 1))
                    acts.append("s%d" % c)
        return acts

    pending = []
    main = []
    for t in range(1, ntasks + 1):
        spawned.add(t)
    order = list(range(1, ntasks + 1))
    setter = rng.choice(order)
    for t in order:
        main.append("s%d" % t)
        if rng.chance(1, 4):
            main.append(rng.choice(["y", "y", "n"]))
    mode = rng.below(4)
    if mode != 3:
        main.append("w")
    main.append("d")
    for t in order:
        progs[t] = None
    for t in order:
        b = body(1)
        if t == setter and mode != 3:
            b.insert(rng.below(len(b) + 1), "f")
        progs[t] = b
    while pending:
        c, d = pending.pop(0)
        progs[c] = body(d)
    line = "P 4000 " + ",".join(main) + "".join(" ; %d %s" % (t, ",".join(p) if p else "-") for t, p in sorted(progs.items()))
    return line


def prog_oracle(line, log):
    """the property on the observed 1x1 execution order: after a task yields (qthread_yield), every task that was
    ready at that moment runs before the yielder is resumed; the run terminates"""
    if log is None:
        return "busy-waiting with qthread_yield() did not terminate on one worker (15 s)"
    groups = line[1:].split(";")
    g0 = groups[0].split()
    progs = {0: g0[1].split(",")}
    for g in groups[1:]:
        t, p = g.split()
        progs[int(t)] = [] if p == "-" else p.split(",")
    pc = {0: 0}
    ready = []          # tasks ready (queued), unordered for the oracle
    flag = [False]
    owes = {}           # yielder -> set of tasks that must run before it resumes
    cur = log[0]
    if cur != 0:
        return "log does not start with the main task"
    pos = 1
    guard = 0
    while True:
        guard += 1
        if guard > 200000:
            return None
        p = progs[cur]
        left = None     # how cur leaves the worker: 'y', 'n', 'end'
        while pc[cur] < len(p):
            a = p[pc[cur]]
            if a[0] == "s":
                c = int(a[1:])
                pc[c] = 0
                ready.append(c)
                pc[cur] += 1
            elif a == "f":
                flag[0] = True
                pc[cur] += 1
            elif a == "w":
                if flag[0]:
                    pc[cur] += 1
                else:
                    left = "y"
                    break
            elif a == "d":
                if not ready:
                    pc[cur] += 1
                else:
                    left = "y"
                    break
            elif a == "y":
                pc[cur] += 1
                left = "y"
                break
            elif a == "n":
                pc[cur] += 1
                left = "n"
                break
        if left is None:
            left = "end"
        if left == "y":
            owes[cur] = set(ready)
            ready.append(cur)
        elif left == "n":
            ready.append(cur)
        if pos >= len(log):
            if ready:
                return "run ended with ready tasks never executed: %s" % ready
            return None
        nxt = log[pos]
        pos += 1
        if nxt not in ready:
            return "task %d ran at step %d but was not ready" % (nxt, pos - 1)
        ready.remove(nxt)
        if nxt in owes:
            pending = owes.pop(nxt)
            if pending:
                return "task %d was resumed after qthread_yield() before ready task(s) %s had a turn" % (nxt, sorted(pending))
        for y in owes:
            owes[y].discard(nxt)
        cur = nxt


# ----------------------------------------------------------------------------- run
def run_m1(ctx, exe, scripts):
    """feed all scripts to one harness process; returns list of output lists (per script)"""
    flat = []
    for sc in scripts:
        flat += sc
    rc, out, err = core.run_lines(exe, flat, timeout=300, env=core.qenv(1, 1, stack=65536), args=["m1"])
    res = []
    pos = 0
    for sc in scripts:
        o = out[pos:pos + len(sc)]
        pos += len(sc)
        if len(o) < len(sc):
            o = o + (["TIMEOUT" if (out and out[-1] == "TIMEOUT") or rc == 3 else "CRASH rc=%s" % rc] * (len(sc) - len(o)))
        res.append(o)
    return res


def load_corpus():
    d = os.path.join(core.VERIF, "corpus", "C08")
    m1, progs = [], []
    if os.path.isdir(d):
        for f in sorted(os.listdir(d)):
            lines = [l.strip() for l in open(os.path.join(d, f)) if l.strip() and not l.startswith("#")]
            if f.endswith(".m1"):
                m1.append(lines)
            elif f.endswith(".prog"):
                progs += lines
    return m1, progs


def run(ctx):
    rng = ctx.rng
    quick = ctx.tier == "quick"
    phase = {}
    tph = [time.time()]
    pr = ctx.coq_properties("Properties/Properties_C08.v")
    exe = ctx.link("c08_tqueue", ["c08_tqueue.c"], exclude=[SUB])
    drv = ctx.model_driver("c08_driver")
    mismatches = []      # (kind, detail)
    rejects = []         # (signature, what, replay)
    samples = []
    hist = {}
    evals = 0
    nontrivial = 0

    phase['coq+build'] = round(time.time() - tph[0], 1); tph[0] = time.time()
    # ---------------- M1
    cm1, cprogs = load_corpus()
    nscripts = 40 if quick else 400
    nops = 220 if quick else 300
    model = Model(drv)
    scripts, mouts = [], []
    try:
        for sc in cm1:
            scripts.append(sc)
            mouts.append([model.ask(l) for l in sc])
        for _ in range(nscripts):
            sc, mo = gen_script(rng.fork(), model, nops)
            scripts.append(sc)
            mouts.append(mo)
    finally:
        model.close()
    phase['m1-generate+model'] = round(time.time() - tph[0], 1); tph[0] = time.time()
    iouts = run_m1(ctx, exe, scripts)
    steals_multi = 0
    for sc, mo, io in zip(scripts, mouts, iouts):
        evals += len(sc)
        for cmd, m in zip(sc, mo):
            key = cmd.split()[0]
            tag, res, qs, bad = parse_line(m)
            if key in ("G", "T"):
                key += ":" + (res[0] if res and not res[0].isdigit() else "task")
            if key == "S":
                key += ":%d" % min(len(res), 3)
                if len(res) >= 2:
                    steals_multi += 1
            hist[key] = hist.get(key, 0) + 1
            if key in ("S:1", "S:2", "S:3", "T:task", "G:task", "G:LIVE"):
                nontrivial += 1
        d = core.first_diff(mo, io)
        if d is not None:
            mismatches.append(("m1", {"script": sc[:d + 1], "step": d, "command": sc[d], "model": mo[d] if d < len(mo) else None,
                                      "impl": io[d] if d < len(io) else None}))
            why = m1_oracle(sc, io)
            if why:
                k, text = why
                rejects.append(("m1-oracle", text, {"mode": "m1", "script": sc[:k + 1], "impl": io[:k + 1][-3:], "model": mo[:k + 1][-3:], "reason": text}))
        elif len(samples) < 2:
            j = next((i for i, c in enumerate(sc) if c.startswith("S") and len(parse_line(mo[i])[1]) >= 2), None)
            if j is not None:
                samples.append({"mode": "m1", "before": mo[j - 1], "command": sc[j], "result": io[j]})

    phase['m1-impl+compare'] = round(time.time() - tph[0], 1); tph[0] = time.time()
    # ---------------- stress (real concurrency on fake workers)
    stress_cfgs = [(2, 1, 0), (3, 2, 0), (4, 2, 1), (2, 3, 3), (5, 1, 7)] if quick else \
                  [(2, 1, 0), (2, 2, 0), (3, 2, 0), (4, 2, 1), (2, 3, 3), (5, 1, 7), (4, 4, 0), (3, 3, 2), (6, 2, 50), (2, 4, 1)]
    total = 8000 if quick else 30000
    reps = 1 if quick else 3
    nstress = 0
    for (n, w, ch) in stress_cfgs:
        for r in range(reps):
            seed = rng.below(1 << 30)
            args = ["stress", str(n), str(w), str(total), str(ch), str(rng.choice([0, 1, 3])), str(rng.choice([0, 20, 50])), str(seed)]
            rc, out, err = core.run_lines(exe, [], timeout=120, env=core.qenv(1, 1, stack=65536), args=args)
            nstress += 1
            evals += 1
            case = {"mode": "stress", "args": args, "output": out[-1:] if out else [], "rc": rc}
            ok_line = out[-1] if out else ""
            tag, res, qs, bad = parse_line(ok_line) if ok_line.startswith("STRESS") else ("", [], [], ["none"])
            good = (rc == 0 and ok_line.startswith("STRESS") and " dup=0 " in ok_line and " lost=0 " in ok_line and
                    "unstealable_ran_elsewhere=0" in ok_line and not bad and all(q["len"] == 0 and q["stl"] == 0 and not q["items"] for q in qs))
            if good:
                nontrivial += 1
            else:
                what = "concurrent enqueue/dequeue/steal on %dx%d fake workers (chunk %d): %s" % (
                    n, w, ch, ok_line if ok_line.startswith("STRESS") else ("hang (60 s watchdog)" if rc == 3 or rc == -9 else "crash rc=%s" % rc))
                mismatches.append(("stress", case))
                rejects.append(("stress-oracle", what, case))

    phase['stress'] = round(time.time() - tph[0], 1); tph[0] = time.time()
    # ---------------- live 1x1 yield order
    nprog = 60 if quick else 500
    plines = list(cprogs)
    tries = 0
    mdl = Model(drv)
    pexp = []
    try:
        gen = []
        while len(gen) < nprog and tries < nprog * 5:
            tries += 1
            l = gen_prog_case(rng)
            gen.append(l)
        cand = plines + gen
        plines = []
        nhang = 0
        for l in cand:
            r = mdl.ask(l)
            if r.endswith("DONE"):
                plines.append(l)
                pexp.append(r)
            elif r.endswith("HANG"):
                nhang += 1
    finally:
        mdl.close()
    hist["P:model-hang(yield_near on empty queue, not run)"] = nhang
    # run in batches so that one hang does not hide the remaining cases
    pos = 0
    pgot = []
    nfail_p = 0
    while pos < len(plines):
        rc, out, err = core.run_lines(exe, plines[pos:], timeout=120 + len(plines), env=core.qenv(1, 1, stack=65536), args=["live"])
        body = [o for o in out if o.startswith("P")]
        pgot += body
        pos += len(body)
        if pos < len(plines) and (rc != 0 or len(body) == 0):
            pgot.append(None)       # this case hung / crashed
            pos += 1
            nfail_p += 1
            if nfail_p >= 2:        # two hangs are enough evidence; do not spend 15 s on each remaining case
                break
        if not out or not out[0].startswith("H "):
            why = "the real runtime crashed or hung at start-up on 1x1 (rc=%s) although the same binary ran the m1 scripts" % rc
            mismatches.append(("live-1x1", {"rc": rc, "stderr": err[-300:]}))
            rejects.append(("live-crash", why, {"mode": "live-1x1", "case": plines[pos - 1] if pos else None, "rc": rc, "reason": why}))
            break
    for l, exp, got in zip(plines, pexp, pgot):
        evals += 1
        hist["P"] = hist.get("P", 0) + 1
        if exp.count(" ") > 6:
            nontrivial += 1
        if got != exp:
            mismatches.append(("live-1x1", {"case": l, "model": exp, "impl": got}))
            log = None if got is None else [int(x) for x in got.split()[1:] if x.lstrip("-").isdigit()]
            why = prog_oracle(l, log)
            if got is not None and "AUDIT-BAD" in got:
                why = "queue audit failed at quiescence"
            if why:
                rejects.append(("yield-oracle", why, {"mode": "live-1x1", "case": l, "impl_order": got, "model_order": exp, "reason": why}))
        elif len(samples) < 4 and exp.count(" ") > 8:
            samples.append({"mode": "live-1x1", "case": l, "order": got})

    phase['live-1x1'] = round(time.time() - tph[0], 1); tph[0] = time.time()
    # ---------------- live need-a-steal scenarios
    ncfgs = [(2, 1, 0), (2, 2, 1), (3, 2, 0), (4, 1, 3)] if quick else \
            [(2, 1, 0), (2, 1, 1), (2, 2, 0), (2, 2, 1), (3, 2, 0), (3, 1, 2), (4, 1, 3), (4, 2, 0), (2, 3, 50), (6, 1, 0), (3, 3, 1)]
    for (n, w, ch) in ncfgs:
        lines = []
        for _ in range(3 if quick else 8):
            lines.append("N %d %d" % (rng.choice([1, 1, 2, 3, 5, 8, 17, 40]), rng.choice([0, 0, 1, 4, 9])))
        rc, out, err = core.run_lines(exe, lines, timeout=400, env=core.qenv(n, w, stack=65536, QT_STEAL_CHUNK=ch), args=["live"])
        if not out or not out[0].startswith("H "):
            why = "the real runtime crashed or hung on %dx%d (rc=%s) while running scenarios that need a steal: %s" % (n, w, rc, lines)
            mismatches.append(("live-steal", {"rc": rc, "stderr": err[-300:]}))
            rejects.append(("live-crash", why, {"mode": "live-need-steal", "shepherds": n, "workers_per_shepherd": w, "QT_STEAL_CHUNK": ch,
                                                 "scenarios": lines, "rc": rc, "reason": why}))
            continue
        body = out[1:]
        for i, l in enumerate(lines):
            evals += 1
            hist["N"] = hist.get("N", 0) + 1
            case = {"mode": "live-need-steal", "shepherds": n, "workers_per_shepherd": w, "QT_STEAL_CHUNK": ch, "scenario": l}
            if i >= len(body) or not body[i].startswith("N "):
                why = "scenario did not finish (watchdog / crash rc=%s)" % rc
                mismatches.append(("live-steal", dict(case, output=body[i:i + 1])))
                rejects.append(("steal-oracle", why, dict(case, reason=why)))
                break
            o = body[i]
            why = None
            m = re.match(r"N K=(\d+) U=(\d+) stranded=(\d) u_ran_before_release=(\d+)", o)
            K = int(m.group(1))
            if m.group(3) != "0":
                why = "stealable ready tasks queued on shepherd 0 (all its workers occupied) were not executed by the idle workers of the other shepherds within 20 s"
            elif m.group(4) != "0":
                why = "an unstealable task ran while every worker of its shepherd was occupied"
            else:
                for tok in o.split("|")[1].split():
                    mm = re.match(r"([su])(\d+):(\d+)@(-?\d+)", tok)
                    if mm.group(3) != "1":
                        why = "task %s ran %s times" % (tok, mm.group(3))
                    elif mm.group(1) == "s" and mm.group(4) == "0":
                        why = "stealable task %s ran on shepherd 0 although all its workers were occupied" % tok
                    elif mm.group(1) == "u" and mm.group(4) != "0":
                        why = "unstealable task %s ran on shepherd %s" % (tok, mm.group(4))
                if "AUDIT-OK" not in o:
                    why = "queue audit failed at quiescence: " + o.split("|")[-1]
            if why:
                mismatches.append(("live-steal", dict(case, output=o)))
                rejects.append(("steal-oracle", why, dict(case, output=o, reason=why)))
            else:
                nontrivial += 1
                if len(samples) < 6 and K >= 3:
                    samples.append(dict(case, output=o[:200]))

    phase['live-need-steal'] = round(time.time() - tph[0], 1); tph[0] = time.time()
    # ---------------- McCoy hand-over on multi-worker shepherds: tasks busy-wait with qthread_yield() for main, main yields itself
    # (judged on completion only: main must get its k yields through before the rescue timer; latency is recorded, not judged)
    mcfgs = [(1, 2), (2, 2)] if quick else [(1, 2), (2, 2), (1, 4), (3, 2), (2, 3)]
    mres = []
    mstop = False
    for (n, w) in mcfgs:
        if mstop:
            break
        lines = ["M 1 20 30", "M 2 20 30", "M 5 20 30"] if quick else ["M 1 40 40", "M 2 40 40", "M 3 40 40", "M 5 40 40", "M 9 40 40"] * 2
        rc, out, err = core.run_lines(exe, lines, timeout=60 + 90 * len(lines), env=core.qenv(n, w, stack=65536), args=["live"])
        body = [o for o in out if o.startswith("M ")]
        for i, l in enumerate(lines):
            evals += 1
            hist["M"] = hist.get("M", 0) + 1
            case = {"mode": "live-mccoy", "shepherds": n, "workers_per_shepherd": w, "scenario": l}
            if i >= len(body):
                why = "McCoy yield-wait scenario did not finish (watchdog / crash rc=%s)" % rc
                mismatches.append(("live-mccoy", case))
                rejects.append(("mccoy-requeue-starvation", why, dict(case, reason=why)))
                mstop = True
                break
            m = re.match(r"M Y=(\d+) k=(\d+) starved=(\d) max_yield_latency=([0-9.]+) total=([0-9.]+) yielder_yields=(\d+) max_bypass=(\d+)", body[i])
            r = {"shepherds": n, "workers_per_shepherd": w, "yielders": int(m.group(1)), "starved": int(m.group(3)),
                 "max_yield_latency_s": float(m.group(4)), "max_bypass": int(m.group(7))}
            mres.append(r)
            if r["starved"]:
                why = ("main (REAL_MCCOY) task yielding on a shepherd with %d workers did not get worker 0 back within the rescue time while %d task(s) "
                       "busy-waiting with qthread_yield() for it performed %s yields" % (w, r["yielders"], m.group(6)))
                mismatches.append(("live-mccoy", dict(case, output=body[i])))
                rejects.append(("mccoy-requeue-starvation", why, dict(case, output=body[i], reason=why)))
                mstop = True
                break
            nontrivial += 1
    ctx.cov["mccoy_yield_wait"] = {"runs": len(mres), "starved": sum(r["starved"] for r in mres),
                                   "worst_latency_s": max([r["max_yield_latency_s"] for r in mres] or [0]),
                                   "worst_bypass": max([r["max_bypass"] for r in mres] or [0])}

    phase['live-mccoy'] = round(time.time() - tph[0], 1); tph[0] = time.time()
    # ---------------- verdict
    ctx.cov["phase_seconds"] = phase
    ctx.cov.update(evaluations=evals, distinct_nontrivial=nontrivial, samples=samples,
                   rule="m1: commands on 1-5 fake shepherds x 1-3 workers, state-aware generator (runs of stealable/unstealable nodes, "
                        "chunk 0/1/2/3/7/100, locked victims, McCoy hand-off, stealing 0/1/2); non-trivial = command that moved a task "
                        "(steal of >=1 node, qthread_steal / get_thread that returned a task, McCoy ping-pong), a stress run, a 1x1 program "
                        "with > 6 context switches, a need-steal scenario that completed",
                   traces_validated_against_impl=evals, input_distribution=hist, m1_scripts=len(scripts),
                   steals_of_2_or_more_nodes=steals_multi, stress_runs=nstress, stress_tasks_per_run=total,
                   configs={"stress": stress_cfgs, "need_steal": ncfgs, "yield_order": "1x1"},
                   correspondence_mismatches=len(mismatches))
    ctx.assumptions += [
        "list layer: operations of one queue are atomic (executed under q->qlock); that enqueue / enqueue_yielded / the owner pop / the steal scan / enqueue_multiple "
        "really are atomic under every schedule is the micro-step layer's theorem tq_micro_refines_atomic (TQueue/Micro.v, replayed on the real code, extension E); "
        "dequeue_specific, filter and qt_threadqueue_free are not in the micro machine",
        "the unlocked peeks (q->head, qlength_stealable twice, myqueue->qlength, shepherd->stealing read before the lock) are separate steps of the micro machine "
        "(tq_peek_safe: they can only cause a skipped attempt or a locked re-check)",
        "pointer layer: every queue operation incl. the whole steal scan loop, the surplus cut and dequeue_specific is proved to refine the list layer "
        "(PtrProofs.v, PtrScanProofs.v) and the extracted pointer machine is executed next to the real code (forward walk, backward walk, head, tail, both counters compared)",
        "spawn cache, task aggregation, local priority queue, eurekas are compiled out in the configured build and not modelled",
        "OS-level fairness of the worker pthreads (an idle thief eventually gets the CPU) is assumed"]
    ctx.notes.append("fixed finding mccoy-requeue-starvation: before the fix a worker other than worker 0 popped the McCoy (main) task and re-queued it "
                     "at the head, which allowed a fair cycle starving main (theorem old_rule_starvation_cycle, regression); the model follows the new "
                     "rule (dequeue_worker) and mccoy_handover is the positive theorem.  Live yield-wait runs: %s" % ctx.cov.get("mccoy_yield_wait"))
    ctx.notes.append("qthread_yield_near() with an empty ready queue on a single worker never returns (qt_scheduler_get_thread waits for a task "
                     "that cannot come): the model reports HANG for these programs and they are not run on the real code (%d generated)" % nhang)
    broken = bool(mismatches) or not pr["ok"]
    if broken:
        what = ("correspondence model/implementation broken (%d cases, first: %s)" % (len(mismatches), mismatches[0][0])) if mismatches else \
            "theorems in %s no longer check" % pr["file"]
        if rejects:
            sig, why, rep = rejects[0]
            ctx.violation(sig, what + "; failing input: " + why, dict(rep, first_mismatch=mismatches[0] if mismatches else None,
                                                                       coq_log=pr["log"][-1500:]))
        else:
            ctx.violation("broken", what, {"theorem_or_correspondence": ("impl != TQueue.Model (%s)" % mismatches[0][0]) if mismatches else pr["file"],
                                           "first_mismatch": mismatches[0] if mismatches else None, "coq_log": pr["log"][-1500:]}, no_input=True)
    # ---------------- extension E: pointer layer completed (heap shape compared) + lock-level micro-step layer (M3 replay)
    _c08_micro.run_micro(ctx, quick)


def replay(ctx, path):
    j = json.load(open(path))
    print(json.dumps(j, indent=1)[:6000])
    rep = j.get("replay", {})
    exe = ctx.link("c08_tqueue", ["c08_tqueue.c"], exclude=[SUB])
    drv = ctx.model_driver("c08_driver")
    if rep.get("mode") == "m1":
        sc = rep["script"]
        io = run_m1(ctx, exe, [sc])[0]
        rc, mo, _ = core.run_lines(drv, sc)
        d = core.first_diff(mo, io)
        print("replay m1: first difference at step %s" % d)
        if d is not None:
            print(" command: %s\n model: %s\n impl:  %s" % (sc[d], mo[d] if d < len(mo) else None, io[d] if d < len(io) else None))
            why = m1_oracle(sc, io)
            ctx.violation("m1-oracle" if why else "broken", (why[1] if why else "impl != model"), rep, no_input=not why)
    elif rep.get("mode") == "live-1x1":
        rc, out, err = core.run_lines(exe, [rep["case"]], timeout=60, env=core.qenv(1, 1, stack=65536), args=["live"])
        rc2, mo, _ = core.run_lines(drv, [rep["case"]])
        got = next((o for o in out if o.startswith("P")), None)
        print(" model: %s\n impl:  %s" % (mo[0] if mo else None, got))
        if not mo or got != mo[0]:
            why = prog_oracle(rep["case"], None if got is None else [int(x) for x in got.split()[1:] if x.isdigit()])
            ctx.violation("yield-oracle" if why else "broken", why or "impl != model", rep, no_input=not why)
    elif rep.get("mode") in ("ptr-shape", "micro"):
        _c08_micro.replay(ctx, rep)
    else:
        run(ctx)
