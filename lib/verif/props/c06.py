"""C06 preconditioned tasks.  Model: Feb/Model.v (check_preconds / launch / spawn) on top of the FEB word model."""
from . import _feb_common as fc
from . import _feb_micro3pre as mp     # extension K part 2: micro-step tier with a nascent waiter (M3)

LEVEL = "proof"


def nontrivial(pio):
    """a precondition task was parked at least once and some precondition task was launched by a later fill"""
    parked = any("words" in r and any(x.endswith("n") for w in r["words"].values() for q in w["q"] for x in q) for r in pio)
    launched = any(r.get("launched") for r in pio)
    return parked and launched


def run(ctx):
    quick = ctx.tier == "quick"
    fc.run_property(ctx, "C06", profiles=["precond"], corpus_props=["C06"],
                    nscripts=400 if quick else 2500,
                    configs=[(1, 1), (2, 1), (2, 2, 12)] if quick else [(1, 1), (2, 1), (1, 2), (3, 1), (2, 2, 40)],
                    trivial_rule=nontrivial)
    ctx.cov["rule"] = ("scripts spawning 1-6 precondition tasks (1-6 precondition words each, duplicates and chains on other tasks' "
                       "return words; every entry point in both calling conventions: qthread_fork_precond, _precond_to, _precond_simple, "
                       "qthread_fork_copyargs_precond with positive count (varargs) and negative count (array), and qthread_spawn with the "
                       "precondition array; half of the spawns have only the LAST listed word empty) interleaved with fill-kind and re-emptying "
                       "operations in random order; non-trivial = some task was parked and some task was launched")
    ctx.assumptions += ["return-value fill by the runtime wrapper (retmode 1) is replayed on 1x1 only (its completion is not observable "
                        "from outside); on multi-worker configurations the task body performs the writeEF itself (retmode 2)"]
    mp.run_micro3pre(ctx, quick)       # extension K part 2 (theorems Properties/Properties_C06_micro.v + two-hold baton on feb.c)


def replay(ctx, path):
    if mp.is_replay(path):             # extension K part 2
        return mp.replay_file(ctx, path)
    fc.replay_file(ctx, path)
